#!/usr/bin/env python3
"""Single source of truth for MANIFEST.json (run to regenerate and validate it)."""
import json
import os
import sys

HERE = os.path.dirname(os.path.abspath(__file__))
VERIF = os.path.dirname(HERE)

# (harness name, needs libompl, sanitizer)
HARNESSES = [
    ("heap", False, "asan"),
    ("planners", True, None),
    ("solset", True, "asan"),
    ("motion", True, "asan"),
    ("bounds", True, None),
    ("rng", True, None),
    ("conc", True, None),
]

HOOK_SUBJECTS = ["verification hooks (guard OMPL_VERIF)"]


def _hook_commits():
    import subprocess
    try:
        out = subprocess.run(["git", "-C", "/repo", "log", "--format=%h %s"], capture_output=True, text=True).stdout
    except OSError:
        return HOOK_SUBJECTS
    return [l.split(" ")[0] for l in out.splitlines() if any(l.split(" ", 1)[1].startswith(h) for h in HOOK_SUBJECTS)]


HOOK_COMMITS = _hook_commits()

CHECKS = {
    "C11": dict(
        level="model_checking",
        text="TLC exhaustively checks an implementation-shaped TLA+ model of BinaryHeap (every array of <= 6-7 keys "
             "over 3-4 values, every public operation) against the heap contract; every transition of that state graph, "
             "every pair of consecutive transitions and random walks are replayed on the real template (3 functors, ASan) "
             "and judged by contract observations; random recorded histories are validated by TLC against HeapContract.",
        note="Trusted: TLC, the dumb projection (size/getContent/top/handle data), integer keys. Bounded model: the "
             "real heap is only exercised up to the model's size bound in replay and to ~40 live elements in traces.",
        technique="TLA+ implementation-shaped spec + TLC; state-graph scenario replay; TLC trace validation",
        design="3/C11"),
}

CHECKS["C05"] = dict(
    level="model_checking",
    text="TLC enumerates every segment count n <= 10 (14 thorough) and EVERY validity predicate on the n subdivision "
         "points as initial states of step-machine transcriptions of both checkMotion forms and of the state-list "
         "bisection, checks them against the contract (verdict = all points valid, last-valid index, counters, each point "
         "visited once) and emits each case with its expectation; every case is replayed exactly on the real validators "
         "(discrete on R^1/SO(2) seam/SE(2)/weighted compound, Dubins, Reeds-Shepp, Dubins3D) through 17 bindings; "
         "curved Dubins/Reeds-Shepp motions are recorded and validated by TLC against the contract.",
    note="Trusted: TLC, the index-recovering validity checker of the harness, StateSpace::interpolate on straight lattice "
         "motions (deviation measured <= 3e-14). Curved motions: verdict agreement and last-valid contract only.",
    technique="TLA+ step-machine spec exhaustive over predicates (TLC) + exact case replay + TLC trace validation",
    design="3/C05")
CHECKS["C08"] = dict(
    level="exploration",
    text="TLA+ transcriptions of enforceBounds/satisfiesBounds on exact lattices (36 bound settings incl. zero-width, huge, "
         "negative, seam, overflow) are checked by TLC for in-bounds result, no-op in bounds, idempotence, and every input is "
         "replayed on the real spaces; the attempt loops of all six valid-state samplers are TLA+ state machines whose every "
         "valid/invalid outcome script is replayed on the real samplers through a scripted validity checker; recorded sampler "
         "outputs (uniform/near/Gaussian, compound/subspace/wrapper, airplane / space-time / constrained spaces) are validated "
         "by TLC against SamplerContract.",
    note="Off the lattice only the laws are judged; seeds are sampled (50 quick / 500 thorough); RNG is not scripted.",
    technique="TLA+ lattice model + TLC, model-generated case replay, scripted-validity replay of sampler state machines, TLC trace validation",
    design="3/C06-C08")

CHECKS["C02"] = dict(
    level="model_checking",
    text="Propagate.tla transcribes both propagateWhileValid overloads statement by statement over an integer integrator with "
         "explicit buffers; TLC checks CountCorrect, ResultIsLastValid, AgreeA_B, NoAllocLeak, ZeroCopies for all steps in -8..8 "
         "(-9..9) x all validity patterns x alloc/capacity and every case is replayed on the real control::SpaceInformation "
         "(3 embeddings, allocation-counting space); 3,840 (56k) runs of the 8 control planners on 3 systems (point, car with "
         "asymmetric control bounds, double integrator) x maps x durations x step sizes x budgets x seeds produce SolveReports "
         "whose facts come from an oracle independent of the library (own step function, own validity, own bounds and goal "
         "distance); half of the runs with a non-trivial budget continue with two further solve() calls on the same planner (one "
         "report per call, listing the paths that call added); each report is validated by TLC against ControlPathContract.tla "
         "(one clause per sentence of the property).",
    note="Propagation exhaustive for the integer integrator only; planner runs sampled on 2-D 4x4 maps; the oracle trusts that "
         "one step moves the system by less than half a cell.",
    technique="TLA+ statement-level spec + TLC exhaustive; exact case replay; TLC trace validation of solve reports",
    design="3/C02")
CHECKS["C10"] = dict(
    level="model_checking",
    text="NearestNeighbors.tla is the contract state machine over bags of [point, uid] with an integer metric (line, duplicates, "
         "far-apart clusters, 3x3 L1 lattice); TLC checks 14 consistency invariants and exports each state graph with the full "
         "table of admissible answers; the harness walks EVERY history of length <= 6 (7-8 thorough; 9.3 M / 140 M paths) through "
         "the graph on both GNAT variants, Linear and SqrtApprox under 7 tree parameterisations, issuing the complete query "
         "battery after every step (684 M / 10.6 G compared answers), plus long random walks under ASan; recorded histories of "
         "1000 operations are validated by TLC, which recomputes brute force itself.",
    note="Integer metrics; bags of <= 8-12 elements in the exhaustive walks (default leaf size reached only in recorded "
         "histories); internal transitions (split/rebuild causes) counted by a harness-side probe subclass, never used for verdicts.",
    technique="TLA+ contract spec + TLC; graph-guided exhaustive history walks (M3'); TLC trace validation",
    design="3/C10")
CHECKS["C06"] = dict(
    level="exploration",
    text="SpaceAlgebra.tla holds exact integer lattice models of R^n, SO(2) (k pi/N), SO(3) (the 24 Hurwitz unit quaternions), "
         "time, discrete, torus, SE(2), SE(3) and nested weighted compounds; TLC checks the metric laws on the model over all "
         "pairs/triples and emits every lattice input with its expected distance (M3); the real distance / equalStates / "
         "getMaximumExtent are compared on ~100k (0.8M) cases; for spaces without an exact model (Moebius, Klein bottle, sphere, "
         "Dubins, Reeds-Shepp, the 3-D Dubins airplane spaces, space-time, empty, constrained spaces as wrappers, random/"
         "near-coincident/seam/antipodal points) recorded fixed-point observations are "
         "validated by TLC against SpaceLaws.tla - exactly the laws each space claims through isMetricSpace()/hasSymmetricDistance().",
    note="Off the lattice only the laws are judged, with each space's own resolution (Dubins 2e-6, SO(3) 4.5e-5, float sphere "
         "1e-4) as tolerance; compound weights strictly positive; bounded time only for the extent clause.",
    technique="TLA+ lattice model + TLC; model-generated case replay; TLC validation of recorded law observations",
    design="3/C06-C08")
CHECKS["C07"] = dict(
    level="exploration",
    text="The same lattice models give exact interpolants for t, s, u in eighths (endpoints, in-bounds, aliasing, "
         "re-parameterisation, geodesic proportionality checked by TLC on the model; SO(2) antipodal ties admit either arc); "
         "~200k (1.4M) emitted cases are compared with the real interpolate; recorded probes of every shipped space (38, incl. "
         "the airplane spaces, space-time, empty and the constrained spaces) and "
         "nested compound are validated by TLC against SpaceLaws.tla (re-parameterisation and proportionality only for the "
         "spaces the property lists).",
    note="Off the lattice: laws only, fixed-point observations with per-space tolerance; discrete/hybrid spaces exempt from the "
         "continuity laws as in the library's own sanity checks.",
    technique="TLA+ lattice model + TLC; model-generated case replay; TLC validation of recorded law observations",
    design="3/C06-C08")
CHECKS["C09"] = dict(
    level="model_checking",
    text="StateLayout.tla enumerates space shapes (1619 / 3575 trees of RV, SO2, SO3, Time, Discrete, SE2/SE3, weighted compounds, "
         "root wrapper) and computes signature, serialization layout, value order and the copyStateData transfer between all "
         "shape pairs; every shape/pair is replayed on real spaces (byte image at expected offsets, copy/clone/serialize/reals "
         "round trips, partial copies). PlannerDataGraph.tla models vertices/starts/goals/edges with index renumbering; every "
         "edge of its graph is replayed on base and control PlannerData and recorded executions are validated by TLC. "
         "Storage.tla models archives as field sequences with truncation, wrong marker, foreign archive and substituted space; "
         "its 49 fault scenarios drive byte-level runs: every byte offset of every archive (4.9 M / 16.8 M truncations) must be "
         "rejected and reported, never silently accepted, never crash.",
    note="Wrapper at the root only; Boost's archive header is one opaque field; 8-byte marker/count widths are x86-64 facts; "
         "harness built without ASan to fit the quick budget.",
    technique="TLA+ specs + TLC; model-generated case and state-graph replay; fault enumeration driven by the spec; TLC trace validation",
    design="3/C09")
CHECKS["C01"] = dict(
    level="exploration",
    text="TLC enumerates every planning configuration of the 3x3 cell world up to symmetry (5478: obstacle layout x start x "
         "goal; model-determined facts: start/goal free, 8-reachability) and a bounded 4x4 part; a stratified sample (36 / "
         "250 + 40 configurations, every class of the enumeration represented) is instantiated for all 45 registered planners in R^2, SE(2), R^3, SE(3), a "
         "weighted compound, Reeds-Shepp and Dubins, with four query variants (single, several starts, GoalStates, "
         "non-sampleable region; plus a block of maps whose goal is unreachable, queried with several starts / goal states, for "
         "every planner that reports approximate solutions, and a block that flips every declared on/off parameter alone) and with the planners' declared parameters swept through the ParamSet, under evaluation "
         "budgets, every run in its own process; every solve report carries facts from an "
         "oracle independent of the planner (own validity predicate, dense re-sampling along interpolate, recomputed goal "
         "distance, motion re-check) and is judged by TLC against PlannerContract.tla, which also re-validates each path on "
         "the abstract map (free 8-connected cell walk from the start cell, reachability).",
    note="2-D/3-D grid worlds; seeds, budgets, threshold/range/resolution classes sampled; oracle trusts "
         "StateSpace::interpolate/distance (C06/C07).",
    technique="TLA+ configuration model enumerated by TLC + TLC trace validation of recorded solve reports against a contract spec",
    design="3/C01")
CHECKS["C03"] = dict(
    level="model_checking",
    text="PlannerLifecycle.tla models the planner life cycle (bind definition, change query, setup, solve(k), clear, "
         "clearQuery, getPlannerData, destroy) with the documented protocol; TLC checks NoStaleQuery and exports the state "
         "graph; histories are walks through it plus the k-sweep solve(k); solve(k2) with the termination condition first "
         "firing at every evaluation index k = 0,1,2,..., plus a targeted block for 'clear() forgets the old query' (multi-goal "
         "first query behind a detour, continued solves, clear / new definition, new query where the old far goal was); they "
         "are executed on all 45 planners (declared parameters swept, short ranges included; for the roadmap planners ClearQuery is also spelled as re-binding the bound definition) over an allocation-counting state space; the "
         "PlannerInputStates cursor and the lazy goal-sampling thread have their own models (InputStates.tla, GoalLazy.tla); "
         "the control planners have a life-cycle add-on; each recorded execution is replayed through the same TLA+ actions and every report is judged by "
         "PlannerLifecycleTrace: status truthful, nothing empty/half-built, path facts of C01 for every added solution, return "
         "within k+B evaluations, nothing lost or worse, fresh planner forgets old queries, no leak / double free, no crash/hang.",
    note="Bound B after the k-th evaluation: 24 (400 for multi-threaded planners); k-sweep for single-threaded planners only; "
         "2-D worlds; leaks observed through a counting R^2 space, crashes/hangs through process-level watchdogs.",
    technique="TLA+ life-cycle spec + TLC; graph-guided history execution; TLC trace validation through the spec's own actions",
    design="3/C03")
CHECKS["C04"] = dict(
    level="model_checking",
    text="Ranking: SolutionSet.tla transcribes PlannerSolution::operator<; TLC proves it a strict weak order equal to the "
         "documented ranking on homogeneous sets, explores every add/clear history (multisets of <= 4 over 8 rank classes) and "
         "every transition + random walks are replayed on the real ProblemDefinition; recorded histories are validated by TLC. "
         "Costs: continued solves (and a re-query after clearQuery) of all 20 optimizing planners under 6 objectives, with "
         "swept parameters, are recorded with independently recomputed "
         "costs and judged by PlannerCostTrace (stored never better than true, equal unless propagation is deferred, true never "
         "better than the admissible lower bound, optimized iff threshold met, best stored cost never worse, best first, the "
         "planner's published incumbent - progress property 'best cost' - never worse than a cost it has just reported).",
    note="Ranking judged on homogeneous sets only. Cost tolerance 4e-5 abs + 1e-5 rel. Planner runs are sampled (environments, "
         "seeds, budgets, parameters).",
    technique="TLA+ spec of the comparator + TLC; state-graph replay; TLC trace validation of recorded cost reports",
    design="3/C04")
CHECKS["C12"] = dict(
    level="model_checking",
    text="PDFTree.tla transcribes the sum tree of ompl::PDF (add with head growth, update, remove with the sibling case, row "
         "shrink and head drop, clear, the sample descent); TLC checks RowsAreSums, RowLengths, index consistency and "
         "SampleRefines (for every r in sixteenths the element reached is admissible under PDFContract) over all weight "
         "vectors of <= 6 x {0..3} / 9 x {0,1}; every transition, every pair and random walks of the exported graph are "
         "replayed on the real PDF (ASan/UBSan) comparing size, weights, element handles and sample(j/16) for all j; recorded "
         "histories with exact and with non-representable weights (0.1, 1e17 ratios, updates to 0) are validated by TLC "
         "against PDFContract (exact) and its fixed-point variant (survivor and zero-weight clauses without tolerance).",
    note="Exact agreement for exactly representable weights; the fixed-point interval check is coarse (1 part in 2^26 of the "
         "largest total); the order in which getElements() lists elements is left free by the contract.",
    technique="TLA+ implementation-shaped spec + contract; TLC; state-graph replay; TLC trace validation",
    design="3/C12")
CHECKS["C13"] = dict(
    level="model_checking",
    text="TLC exhaustively checks a TLA+ transcription of Grid/GridN/GridB (two-step create/add protocol, remove, update, "
         "clear; 1-D/2-D/3-D boxes with cells on, inside and outside the bounds, interior limits 1..2d, count-dependent "
         "priorities, both functor assignments) against neighbour, component, count, border, queue-partition and top "
         "invariants. Every transition of the dumped graphs, pairs, and random walks are replayed on the real templates (ASan, "
         "negative, +-10^6 and reflected coordinates) against TLC's full observation table. Random recorded histories (dense, "
         "hash-colliding, far) are validated by TLC against the same specification.",
    note="Documented protocol assumed (createCell immediately followed by add for adjacent cells; top* only on non-empty heaps). "
         "Replay bounded to boxes of <= 12 coordinates; traces reach ~36 live cells; 3-D in the thorough tier.",
    technique="TLA+ spec + TLC; state-graph scenario replay; TLC trace validation",
    design="3/C13")
CHECKS["C17"] = dict(
    level="model_checking",
    text="PathOps.tla transcribes subdivide / interpolate() / interpolate(count) on integer paths; TLC checks the densification "
         "contract on every path of <= 4 (5) segments x counts 0..14 (16) and each of the 162k (633k) cases is replayed exactly on "
         "PathGeometric. Every simplifier / hybridization routine is run on thousands of valid input paths (planner outputs, "
         "synthetic zig-zags with repeated states, non-metric space, field objective, interrupted simplify, single perturbation "
         "steps whose window swallows whole segments) in forked, "
         "individually seeded chains; each call's before/after report (endpoints, oracle validity, length, cost, check()) is "
         "validated by TLC against SimplifierContract.tla.",
    note="Validity oracle with clearance margin (library predicate clearance >= 2r, oracle >= r/2) so re-discretisation cannot "
         "alarm; 2-D worlds; 'introduces only validated motions' observed as validity of the result given a valid input.",
    technique="TLA+ spec + TLC exhaustive case enumeration with exact replay; TLC trace validation of routine reports",
    design="3/C17")
CHECKS["C18"] = dict(
    level="model_checking",
    text="PTC.tla models condition terms as graphs of impl objects (Pred, Always, Never, Iter(n), Or, And, ExactSoln) with "
         "per-object terminate flags, C++ evaluation order and short-circuiting; TLC checks TerminateSticky, OrAndTruth, "
         "Constants, IterThreshold, ExactMirrors over all terms of depth <= 1 (and sampled/all depth-2 terms) and every edge of "
         "the exported graphs is replayed on terms built with the real factory functions (the direct form in its three spellings: "
         "no period, period 0, negative period), comparing every eval() result and "
         "predicate-invocation count; PTCPeriodic.tla (evaluator thread + caller + clock) is checked for the lag bound, "
         "no-predicate-call-on-caller and thread termination (liveness under fairness); CostConvergence.tla transcribes "
         "processNewSolution with exact rationals and all 24,576 (625k) cost sequences are replayed through the real condition; "
         "timed/periodic executions are recorded with integer timestamps and validated by TLC using one-sided facts only.",
    note="Cost convergence follows the code's documented rule (cumulative moving average capped at the window); timed verdicts "
         "only from facts a slow machine cannot falsify; depth-2 terms sampled in the quick tier.",
    technique="TLA+ specs + TLC (safety and liveness); state-graph scenario replay; TLC trace validation",
    design="3/C18")
CHECKS["C19"] = dict(
    level="model_checking",
    text="Protocol model of the motion counters at the code's atomicity checked by TLC over all interleavings (atomic form "
         "holds, two-step form loses an update); real 2..16-thread executions of the thread-safe surface recorded through "
         "guarded hooks (thread, resource, read/write, atomicity from the declared type, measured lockset, fork/join) are "
         "validated by TLC against SharedMemTrace.tla: vector-clock/lockset data-race rule plus contract events (counters = "
         "calls, seeds = sequential set, unique names, complete ranked solution set, exact GNAT answers, terminate observed "
         "and sticky, log messages delivered to the installed handler only - ConsoleLog.tla models the console lock and its "
         "read-before-lock variant must be refuted). Inside the multi-threaded planners: protocol models PRRT, PSBL, PRMTwoThread, CForestShare, APSShare, "
         "GoalStatesSample at the code's atomicity (safety + termination under fairness; the uncorrected transcription must "
         "fail as a vacuity gate), hooked runs of pRRT, pSBL, PRM, CForest, AnytimePathShortening under seeded schedule "
         "perturbation validated by TLC (race rule with lock-edge happens-before, mutex-ownership rules, PSBLTrace protocol "
         "rules), and every run judged by the single-threaded PlannerContract.",
    note="Only hooked resources are seen; real schedules are sampled (interleavings enumerated on the model only); lock "
         "ownership read from glibc's mutex owner field.",
    technique="TLA+ protocol model + TLC; TLC trace validation of hook traces against a happens-before/lockset race rule",
    design="3/C19")
CHECKS["C20"] = dict(
    level="model_checking",
    text="SeedGen.tla transcribes the global seed generator; TLC checks that the i-th local seed depends only on (seed, i) over "
         "all call histories and emits them; each history runs in its own fresh process and TLC (Determinism.tla) validates that "
         "equal abstract seeds gave equal values across processes. RngStream.tla models one RNG with its distribution caches; "
         "TLC checks ReseedReproduces (and sees the stale-cache variant fail); every pre/reseed/post scenario is replayed "
         "bitwise. Every single-threaded planner (declared parameters swept) runs twice in separate processes per problem/seed/budget, "
         "also on a lattice space whose samplers only hand out lattice points (exact distance ties, repeated states); the complete "
         "outcomes (status, evaluation count, hash of all validity queries, solution bits) are validated by TLC.",
    note="Same binary and machine; separate processes. Planner runs sampled.",
    technique="TLA+ spec + TLC; fresh-process scenario replay; TLC validation of paired run observations",
    design="3/C20")

CHECKS["C14"] = dict(
    level="exploration",
    text="DubinsClass.tla / ReedsSheppClass.tla / CurveIntegrator.tla transcribe the decision structure of the two spaces over "
         "abstract inputs (trivial shortcut, long/short, 16-class table with its switching-function sign tests, the exhaustive "
         "running minimum, the symmetrised choice; 18 rows, 8 formulas, 44 candidate evaluations with timeflip/reflect/backwards, "
         "48 words; 3- and 5-segment integrators incl. the reversed word). TLC checks table sanity (words among six, total "
         "deterministic tree, closure of the class table under mirror image and reversal, legal alternation, <= 2 cusps, closure "
         "of the 48 words under the three symmetries, integrator tiles [0,1]) and exports 75+12 Dubins branch cases (15 argued "
         "unreachable, self-checking list), 36 decision nodes, 64 quadrant positions, 48 RS words, 104 integrator cases. The "
         "harness finds pose pairs for every case, bisects to every decision node (fans 1e-12..1e-4 on both sides), adds the "
         "quantifier's families (same position, collinear, < 4 radii, quadrant boundaries exactly and +-1 ulp, 1e3 radii, tiny "
         "end arcs, prefix end points as targets), 5 radii, and records fixed-point observations of the real spaces (13 k / 1.1 M "
         "events); TLC validates each against CurveContract.tla, one named clause per sentence (vehicle model per step, reversals "
         "only for RS, end pose, arc length = distance, >= straight line, = shortest of six against an independent long-double "
         "solver, symmetry, RS <= Dubins, prefix optimality in eighths).",
    note="Tolerances in units of 1e-8*rho*max(1,d) from measured distributions (interior maxima 1e-14, boundary excess 4e-7; "
         "classes 1e-6 / 5e-6 / 1e-5); shortest-of-six judged against the optimum's envelope over targets within the library's "
         "own 2e-6 resolution; symmetrised-Dubins prefix clause one-sided (a forward curve can reach a point of a backward-driven "
         "curve sooner); no independent RS optimum; table-vs-library word is a drift metric only (0 interior drift); the 15 "
         "unreachable exhaustive combinations are argued empirically (0 of 2e7).",
    technique="TLA+ transcription of the case analysis + TLC enumeration of every branch case; model-driven search and replay on "
              "the real classes; TLC validation of recorded observations against a contract trace spec",
    design="3/C14")
CHECKS["C15"] = dict(
    level="exploration",
    text="InformedLoops.tla transcribes the attempt loops of PathLengthDirectInfSampler (both overloads, PHS pruning, "
         "whole-space/PHS switch, 1/k keep rule), RejectionInfSampler and OrderedInfSampler (batch queue) over a scripted "
         "environment; TLC proves success => in bounds, cost < max, cost >= min, attempts <= numIters, false only when "
         "exhausted, ordered output sorted and below the bound, and every script (19k / 731k) is replayed on the real classes "
         "through a scripted/counting state space, recorded attempt sequences being validated by TLC as model behaviours; "
         "MultiFocus.tla proves by exact counting on a cell universe that region-by-measure + uniform cell + 1/k acceptance + "
         "bounds rejection returns every cell of the union in bounds with the same probability and no other (model mutations "
         "rejected); recorded Sample/Surface/Measure/InPhs/Hist observations (own bounds test, long-double focal sums, "
         "analytic volumes, interval-quadrature bin areas; R^n, SE(2), SE(3); direct/rejection/ordered/wrapper; dims 2-10) "
         "are judged by TLC against InformedContract.tla, uniformity with integer Bernstein and chi-square bounds (false "
         "alarm < 1e-12 per run).",
    note="Uniformity is decided at bin resolution on seeded runs (2e5 / 1e6 samples per histogram), not as a distribution; "
         "RNG not scripted; measure for several start/goal pairs judged as the documented sum; bound == focal distance judged "
         "only for termination; known findings: rounding at coarse scales, permanent PHS pruning.",
    technique="TLA+ statement-level loop model + TLC, scripted-environment replay, TLC trace validation of recorded attempt "
              "sequences, exact counting model with model mutations, TLC trace validation of integer-valued statistical observations",
    design="3/C15")
CHECKS["C16"] = dict(
    level="exploration",
    text="Geodesic.tla transcribes the three discreteGeodesic loops (projection, atlas, tangent bundle), geodesicInterpolate and both "
         "ConstrainedMotionValidator::checkMotion forms over an exact lattice sub-domain with a scripted environment (cells where the "
         "projection fails or jumps, NaN cells, invalid cells, chart radius, chart limit); TLC checks states on the manifold, steps <= "
         "lambda*delta, success => end within delta, interpolate returns a stored satisfying state (from at t=0, the last at t=1), "
         "checkMotion => geodesic succeeded, for every configuration (39k / 454k states) and every behaviour (11k / 128k) is replayed "
         "on the real spaces through the harness's own Constraint and validity checker (3 embeddings, every loop exit taken); samplers, "
         "valid samplers, interpolation, geodesics, motion checks and 12 planners on 10 real manifolds (sphere, torus, planes, "
         "intersections, products, co-dimension 1..3) x 3 space kinds x swept parameters are recorded with facts from the harness's own "
         "closed-form constraint functions and judged by TLC against ConstrainedContract.tla (one clause per sentence; tangent-bundle "
         "geodesics exempt, nothing else).",
    note="Exact model only on flat lattices: atlas exits needing curvature (step back-off, epsilon step, lambda ball) are transcribed but "
         "unreachable there; Newton convergence itself is only sampled (seeds/parameter sets sampled, tolerance margin 1e-9 rel + 1e-12); "
         "known finding: samplers clamp to the bounds after projecting (planes).",
    technique="TLA+ statement-level spec + TLC exhaustive; scripted-environment replay of every model behaviour; TLC trace validation "
              "(report-and-advance) of recorded facts with an independent closed-form oracle",
    design="3/C16")

NOT_APPLICABLE = {}

# properties whose checks are not built yet are listed as not claimed (kept current as checks land)
PENDING = "check not built yet in this tree (planned in DESIGN.md); not claimed until it exists"


def build():
    props = [json.loads(l)["id"] for l in open(os.path.join(VERIF, "properties.jsonl")) if l.strip()]
    checks = []
    for pid in props:
        if pid not in CHECKS:
            continue
        c = CHECKS[pid]
        checks.append({
            "property_id": pid,
            "quick_cmd": "./check %s --tier quick" % pid,
            "thorough_cmd": "./check %s --tier thorough" % pid,
            "evidence_file": "/verif/evidence/%s.json" % pid,
            "replay_cmd_template": "./check %s --replay {path}" % pid,
            "engine": "tlc",
            "level_claimed": {"category": c["level"], "text": c["text"], "design_ref": "DESIGN.md section " + c["design"]},
            "level_note": c["note"],
            "technique": c["technique"],
        })
    na = []
    for pid in props:
        if pid in CHECKS:
            continue
        na.append({"property_id": pid, "reason": NOT_APPLICABLE.get(pid, PENDING)})
    return {
        "version": 1,
        "setup_cmd": "python3 tools/setup.py",
        "hooks": {
            "guard": "OMPL_VERIF",
            "enable": "checks build libompl into /verif/.work/build-plain with -DCMAKE_CXX_FLAGS=-DOMPL_VERIF and compile harnesses with -DOMPL_VERIF",
            "baseline_off_cmd": "sh tools/baseline_off.sh",
            "source_commits": HOOK_COMMITS,
            "add_only": True,
        },
        "engines": [{"name": "tlc", "path": "/opt/veriftools/tla/tla2tools.jar",
                     "serves_properties": sorted(CHECKS.keys()),
                     "kind_free_text": "TLA+ specifications under specs/, model-checked with TLC; bound to the code by scenario replay (harness/*.cpp) and TLC trace validation"}],
        "checks": checks,
        "not_applicable": na,
        "notes": "Model-based verification with explicit TLA+ specifications; see DESIGN.md. Known findings: known_findings.json.",
    }


if __name__ == "__main__":
    m = build()
    out = os.path.join(VERIF, "MANIFEST.json")
    json.dump(m, open(out, "w"), indent=1)
    open(out, "a").write("\n")
    try:
        import jsonschema
        jsonschema.validate(m, json.load(open("/root/.vp/MANIFEST.schema.json")))
        print("MANIFEST.json valid: %d checks, %d not claimed" % (len(m["checks"]), len(m["not_applicable"])))
    except ImportError:
        print("MANIFEST.json written (jsonschema not available to validate)")
