#!/bin/bash
# development helper: run every registered thorough command once (not a registered check).
# usage: thorough_sweep.sh [ID ...]   (default: all)
cd "$(dirname "$0")/.."
IDS="$@"
[ -z "$IDS" ] && IDS="C11 C12 C13 C05 C18 C20 C04 C09 C08 C06 C07 C17 C02 C19 C03 C10 C14 C15 C16 C01 G01 G02 G03"
for id in $IDS; do
  echo "=== $id $(date +%H:%M)"
  t0=$(date +%s)
  timeout 9000 ./check $id --tier thorough > .work/thorough-$id.log 2>&1
  rc=$?
  grep -E "VIOLATION|what:|KNOWN-FINDING|tier:|FRAMEWORK" .work/thorough-$id.log | cut -c1-300
  echo "--- $id rc=$rc $(( $(date +%s)-t0 ))s"
done
echo SWEEPDONE
