#!/bin/bash
# development helper: run every registered thorough command once, sequentially (not a registered check)
cd "$(dirname "$0")/.."
for id in C11 C12 C13 C05 C18 C20 C04 C09 C08 C06 C07 C17 C02 C19 C03 C10 C01; do
  echo "=== $id $(date +%H:%M)"
  timeout 7200 ./check $id --tier thorough 2>&1 | grep -E "VIOLATION|what:|KNOWN-FINDING|tier:|FRAMEWORK" | cut -c1-300
done
echo SWEEPDONE
