#!/usr/bin/env python3
"""Run a check against a scratch copy of /repo with a patch applied (binding demonstration,
seeded-change evaluation).  Nothing in /repo or in /verif/evidence is touched.

  tools/mutate.py <ID> <patch.diff> [--tier quick|thorough] [--keep] [--scratch DIR]

Exit 0 = the check DETECTED the change (printed a VIOLATION line), 1 = missed, 2 = error.
"""
import argparse
import os
import shutil
import subprocess
import sys
import tempfile

HERE = os.path.dirname(os.path.abspath(__file__))
VERIF = os.path.dirname(HERE)


def main():
    ap = argparse.ArgumentParser()
    ap.add_argument("pid")
    ap.add_argument("patch")
    ap.add_argument("--tier", default="quick")
    ap.add_argument("--keep", action="store_true")
    ap.add_argument("--scratch", default=None)
    ap.add_argument("--headers-only", action="store_true",
                    help="the check needs no libompl build (header-only structure)")
    a = ap.parse_args()
    base = a.scratch or tempfile.mkdtemp(prefix="verif-mut-", dir="/var/tmp")
    repo = os.path.join(base, "repo")
    work = os.path.join(base, "work")
    os.makedirs(work, exist_ok=True)
    try:
        subprocess.check_call(["rsync", "-a", "--exclude", "_build", "--exclude", ".git",
                               "--exclude", "py-bindings/ompl", "/repo/", repo + "/"])
        os.makedirs(os.path.join(repo, "py-bindings", "ompl"), exist_ok=True)
        r = subprocess.run(["patch", "-p1", "-d", repo, "-i", os.path.abspath(a.patch)],
                           stdout=subprocess.PIPE, stderr=subprocess.STDOUT, text=True)
        if r.returncode != 0:
            print("patch failed:\n" + r.stdout)
            return 2
        env = dict(os.environ, VERIF_REPO=repo, VERIF_WORK=work)
        p = subprocess.run([os.path.join(VERIF, "check"), a.pid, "--tier", a.tier], env=env,
                           stdout=subprocess.PIPE, stderr=subprocess.STDOUT, text=True)
        out = p.stdout
        viol = [l for l in out.splitlines() if l.startswith("VIOLATION ")]
        print(out[-3000:])
        if p.returncode == 2 or "FRAMEWORK-ERROR" in out:
            print("MUTANT %s: framework error (rc=%d)" % (os.path.basename(a.patch), p.returncode))
            return 2
        if viol and p.returncode == 1:
            print("MUTANT %s: DETECTED" % os.path.basename(a.patch))
            return 0
        print("MUTANT %s: MISSED" % os.path.basename(a.patch))
        return 1
    finally:
        if not a.keep:
            shutil.rmtree(base, ignore_errors=True)


if __name__ == "__main__":
    sys.exit(main())
