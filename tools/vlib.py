"""Common machinery for the /verif checks: building, running TLC, evidence, findings.

Everything a registered command needs lives under /verif (build output in /verif/.work).
"""
import fcntl
import hashlib
import json
import os
import re
import shutil
import subprocess
import sys
import time

VERIF = os.path.dirname(os.path.dirname(os.path.abspath(__file__)))
REPO = os.environ.get("VERIF_REPO", "/repo")
WORK = os.environ.get("VERIF_WORK") or os.path.join(VERIF, ".work")
# evidence of runs against a scratch copy of the repository never overwrites the real evidence
EVID = os.path.join(VERIF, "evidence") if not os.environ.get("VERIF_WORK") else os.path.join(WORK, "evidence")
SPECS = os.path.join(VERIF, "specs")
HARNESS = os.path.join(VERIF, "harness")
GUARD = "OMPL_VERIF"
NCPU = os.cpu_count() or 4
# optional throttle (development only): /verif/.work/jobs or $VERIF_JOBS caps the parallelism
try:
    _cap = os.environ.get("VERIF_JOBS") or open(os.path.join(VERIF, ".work", "jobs")).read().strip()
    NCPU = max(1, min(NCPU, int(_cap)))
except (OSError, ValueError):
    pass


class FrameworkError(Exception):
    """The machinery itself failed (TLC parse error, build error ...): exit 2, no VIOLATION."""


def log(*a):
    print(*a, flush=True)


def ensure_dir(p):
    os.makedirs(p, exist_ok=True)
    return p


def seed():
    try:
        return int(os.environ.get("VERIF_SEED", "1"))
    except ValueError:
        return 1


# --------------------------------------------------------------------------- building

def _ccache_env():
    env = dict(os.environ)
    env["CCACHE_DIR"] = ensure_dir(os.path.join(VERIF, ".work", "ccache"))
    env["CCACHE_BASEDIR"] = "/"
    env.setdefault("CCACHE_MAXSIZE", "4G")
    return env


class _Lock:
    def __init__(self, name):
        ensure_dir(WORK)
        self.path = os.path.join(WORK, name + ".lock")

    def __enter__(self):
        self.f = open(self.path, "w")
        fcntl.flock(self.f, fcntl.LOCK_EX)
        return self

    def __exit__(self, *a):
        fcntl.flock(self.f, fcntl.LOCK_UN)
        self.f.close()


def build_lib(variant="plain"):
    """Configure (once) and incrementally build libompl from REPO's working tree with the
    hook guard on.  variant: 'plain' | 'tsan'.  Returns the directory containing libompl.so."""
    bdir = os.path.join(WORK, "build-" + variant)
    flags = "-Wno-error -D%s" % GUARD
    if variant == "tsan":
        flags += " -fsanitize=thread -fno-omit-frame-pointer"
    with _Lock("build-" + variant):
        t0 = time.time()
        if not os.path.exists(os.path.join(bdir, "build.ninja")):
            ensure_dir(bdir)
            cmd = ["cmake", "-S", REPO, "-B", bdir, "-G", "Ninja",
                   "-DCMAKE_BUILD_TYPE=RelWithDebInfo",
                   "-DOMPL_BUILD_TESTS=OFF", "-DOMPL_BUILD_DEMOS=OFF",
                   "-DOMPL_BUILD_PYBINDINGS=OFF", "-DOMPL_BUILD_PYTESTS=OFF",
                   "-DOMPL_REGISTRATION=OFF", "-DOMPL_VERSIONED_INSTALL=OFF",
                   "-DCMAKE_CXX_COMPILER_LAUNCHER=ccache",
                   "-DCMAKE_CXX_FLAGS=" + flags]
            r = subprocess.run(cmd, env=_ccache_env(), stdout=subprocess.PIPE,
                               stderr=subprocess.STDOUT, text=True)
            if r.returncode != 0:
                raise FrameworkError("cmake configure failed:\n" + r.stdout[-4000:])
        r = subprocess.run(["ninja", "-j", str(NCPU + 2), "-C", bdir, "ompl"], env=_ccache_env(),
                           stdout=subprocess.PIPE, stderr=subprocess.STDOUT, text=True)
        if r.returncode != 0:
            raise FrameworkError("libompl build failed (this is a build error of the tree "
                                 "under test, not a property verdict):\n" + r.stdout[-6000:])
        log("[build] libompl (%s) up to date in %.1fs" % (variant, time.time() - t0))
    return os.path.join(bdir, "src", "ompl")


def build_harness(name, needs_lib=True, san=None, extra=(), variant="plain", opt="-O1"):
    """Compile harness/<name>.cpp against REPO/src headers.  Always recompiles (through
    ccache), so edits to header-only code in REPO are always picked up.
    san: None | 'asan' (address+undefined) .  Returns the binary path."""
    src = os.path.join(HARNESS, name + ".cpp")
    bindir = ensure_dir(os.path.join(WORK, "bin"))
    out = os.path.join(bindir, name + ("-" + san if san else "") + ("-" + variant if variant != "plain" else ""))
    libdir = build_lib(variant) if needs_lib else None
    cfgdir = os.path.join(WORK, "build-" + variant, "src") if needs_lib else _config_dir()
    cmd = ["ccache", "g++", "-std=c++17", opt, "-g", "-D" + GUARD, "-Wno-deprecated-declarations",
           "-I" + os.path.join(REPO, "src"), "-I" + cfgdir, "-I/usr/include/eigen3",
           "-I" + os.path.join(HARNESS, "common"), src, "-o", out + ".tmp%d" % os.getpid()]
    if san == "asan":
        cmd += ["-fsanitize=address,undefined", "-fno-omit-frame-pointer", "-fno-sanitize-recover=undefined"]
    if variant == "tsan":
        cmd += ["-fsanitize=thread"]
    cmd += list(extra)
    if needs_lib:
        cmd += ["-L" + libdir, "-lompl", "-Wl,-rpath," + libdir, "-lboost_serialization",
                "-lboost_filesystem", "-lboost_system"]
    cmd += ["-lpthread"]
    t0 = time.time()
    r = subprocess.run(cmd, env=_ccache_env(), stdout=subprocess.PIPE, stderr=subprocess.STDOUT, text=True)
    if r.returncode != 0:
        raise FrameworkError("harness %s failed to compile against %s:\n%s" % (name, REPO, r.stdout[-6000:]))
    os.replace(out + ".tmp%d" % os.getpid(), out)
    log("[build] harness %s%s in %.1fs" % (name, " (" + san + ")" if san else "", time.time() - t0))
    return out


def _config_dir():
    """ompl/config.h for header-only harnesses: generated once from config.h.in by a tiny
    cmake-free substitution (only version macros are needed by the headers we include)."""
    d = ensure_dir(os.path.join(WORK, "cfg", "ompl"))
    dst = os.path.join(d, "config.h")
    # prefer a real one when a build tree exists
    for cand in (os.path.join(WORK, "build-plain", "src", "ompl", "config.h"),
                 os.path.join(REPO, "_build", "src", "ompl", "config.h")):
        if os.path.exists(cand):
            shutil.copyfile(cand, dst)
            return os.path.dirname(d)
    src = open(os.path.join(REPO, "src", "ompl", "config.h.in")).read()
    src = re.sub(r"#cmakedefine01 (\w+)", r"#define \1 0", src)
    src = re.sub(r"#cmakedefine (\w+).*", r"/* #undef \1 */", src)
    src = re.sub(r"@\w+@", "0", src)
    open(dst, "w").write(src)
    return os.path.dirname(d)


def run_cmd(cmd, timeout=None, env=None, stdin=None, cwd=None):
    """Run a harness binary; returns (rc, stdout, stderr)."""
    e = dict(os.environ)
    e.setdefault("ASAN_OPTIONS", "detect_leaks=1:abort_on_error=0:exitcode=77")
    e.setdefault("UBSAN_OPTIONS", "print_stacktrace=1:halt_on_error=1:exitcode=78")
    if env:
        e.update(env)
    try:
        r = subprocess.run(cmd, env=e, stdout=subprocess.PIPE, stderr=subprocess.PIPE, text=True,
                           timeout=timeout, input=stdin, cwd=cwd)
        return r.returncode, r.stdout, r.stderr
    except subprocess.TimeoutExpired as ex:
        so = ex.stdout.decode() if isinstance(ex.stdout, bytes) else (ex.stdout or "")
        se = ex.stderr.decode() if isinstance(ex.stderr, bytes) else (ex.stderr or "")
        return -999, so, se


# --------------------------------------------------------------------------- TLC

TLC_JAR = "/opt/veriftools/tla/tla2tools.jar"
TLC_CP = TLC_JAR + ":/opt/veriftools/tla/CommunityModules-deps.jar"
_run_counter = [0]
import threading
_counter_lock = threading.Lock()


class TlcResult:
    def __init__(self):
        self.rc = None
        self.out = ""
        self.generated = 0
        self.distinct = 0
        self.depth = 0
        self.violated = None      # name of violated invariant / property, if any
        self.error = None         # framework-level error text
        self.json = []            # parsed JSON lines printed by the spec
        self.coverage = {}        # action -> (taken, generated)
        self.wall = 0.0
        self.finished = False

    def summary(self, name):
        return {"config": name, "generated": self.generated, "distinct": self.distinct,
                "depth": self.depth, "wall_s": round(self.wall, 2)}


def _classpath():
    cp = [TLC_JAR]
    d = os.path.dirname(TLC_JAR)
    for f in sorted(os.listdir(d)):
        if f.endswith(".jar") and os.path.join(d, f) not in cp:
            cp.append(os.path.join(d, f))
    return ":".join(cp)


def run_tlc(module, cfg=None, workers=None, timeout=600, env=None, simulate=None, depth=None,
            coverage=False, dfs=False, heap="8g", seed_=None, keep_out=True, extra=(), cwd=None,
            deadlock=False, collect_json=True, json_sink=None):
    """Run TLC on specs/<module>.tla (module may contain a subdirectory).  cfg defaults to the
    module's .cfg.  Returns a TlcResult.  Exit codes: 0 ok, 12 safety violation, 13 liveness."""
    mpath = module if os.path.isabs(module) else os.path.join(SPECS, module)
    if not mpath.endswith(".tla"):
        mpath += ".tla"
    mdir = cwd or os.path.dirname(mpath)
    if cfg is None:
        cfg = mpath[:-4] + ".cfg"
    elif not os.path.isabs(cfg):
        cfg = os.path.join(mdir, cfg)
    with _counter_lock:
        _run_counter[0] += 1
        n_run = _run_counter[0]
    meta = os.path.join(WORK, "tlc", "%s-%d-%d" % (os.path.basename(mpath)[:-4], os.getpid(), n_run))
    shutil.rmtree(meta, ignore_errors=True)
    ensure_dir(meta)
    jopts = ["-XX:+UseParallelGC", "-XX:ParallelGCThreads=%d" % max(1, min(4, workers or 1)), "-Xmx" + heap, "-Xss64m"]
    if dfs:
        jopts.append("-Dtlc2.tool.queue.IStateQueue=StateDeque")
    libdirs = [os.path.join(SPECS, d) for d in sorted(os.listdir(SPECS)) if os.path.isdir(os.path.join(SPECS, d))]
    jopts.append("-DTLA-Library=" + ":".join(libdirs))
    cmd = ["java"] + jopts + ["-cp", _classpath(), "tlc2.TLC", "-metadir", meta, "-config", cfg,
                              "-workers", str(workers or 1), "-noGenerateSpecTE"]
    if not deadlock:
        cmd.append("-deadlock")  # -deadlock DISABLES deadlock checking
    if coverage:
        cmd += ["-coverage", "1"]
    if simulate:
        cmd += ["-simulate", "num=%d" % simulate]
        if depth:
            cmd += ["-depth", str(depth)]
    if seed_ is not None:
        cmd += ["-seed", str(seed_)]
    cmd += list(extra)
    cmd.append(mpath)
    e = dict(os.environ)
    if env:
        e.update({k: str(v) for k, v in env.items()})
    res = TlcResult()
    t0 = time.time()
    try:
        p = subprocess.Popen(cmd, env=e, stdout=subprocess.PIPE, stderr=subprocess.STDOUT, text=True,
                             cwd=mdir, bufsize=1 << 16)
    except OSError as ex:
        raise FrameworkError("cannot start TLC: %s" % ex)
    lines = []
    deadline = t0 + timeout
    import select
    timed_out = False

    def handle(s):
        if collect_json and s.startswith("{") and s.endswith("}"):
            try:
                obj = json.loads(s)
                (json_sink or res.json.append)(obj)
                return
            except ValueError:
                pass
        if collect_json and s.startswith('"{') and s.endswith('}"'):
            # PrintT of a string produced by ToJson is printed as a quoted TLA+ string
            try:
                obj = json.loads(s[1:-1].replace('\\"', '"').replace("\\\\", "\\"))
                (json_sink or res.json.append)(obj)
                return
            except ValueError:
                pass
        lines.append(s)

    while True:
        if time.time() > deadline:
            p.kill()
            timed_out = True
            break
        r, _, _ = select.select([p.stdout], [], [], 1.0)
        if r:
            line = p.stdout.readline()
            if not line:
                break
            handle(line.rstrip("\n"))
        elif p.poll() is not None:
            rest = p.stdout.read()
            for s in (rest or "").split("\n"):
                if s:
                    handle(s)
            break
    p.wait()
    res.wall = time.time() - t0
    res.rc = p.returncode
    res.out = "\n".join(lines)
    shutil.rmtree(meta, ignore_errors=True)
    if timed_out:
        res.error = "TLC timed out after %ds on %s" % (timeout, os.path.basename(cfg))
        return res
    m = re.findall(r"(\d+) states generated, (\d+) distinct states found", res.out)
    if m:
        res.generated, res.distinct = int(m[-1][0]), int(m[-1][1])
    m = re.search(r"The depth of the complete state graph search is (\d+)", res.out)
    if m:
        res.depth = int(m.group(1))
    m = re.search(r"Invariant (\w+) is violated", res.out)
    if m:
        res.violated = m.group(1)
    m2 = re.search(r"Action property (\w+) is violated|Temporal properties were violated|property (\w+) is violated", res.out)
    if m2 and not res.violated:
        res.violated = m2.group(1) or m2.group(2) or "temporal"
    if "Deadlock reached" in res.out and not res.violated:
        res.violated = "Deadlock"
    res.finished = "Model checking completed" in res.out or "Finished in" in res.out or simulate is not None
    for mm in re.finditer(r"<(\w+) line \d+, col \d+ to line \d+, col \d+ of module \w+>: (\d+):(\d+)", res.out):
        res.coverage[mm.group(1)] = (int(mm.group(2)), int(mm.group(3)))
    if res.rc not in (0, 12, 13) or ("Parsing or semantic analysis failed" in res.out) or \
            (res.rc == 0 and not res.finished):
        res.error = "TLC failed (rc=%s) on %s:\n%s" % (res.rc, os.path.basename(cfg), res.out[-3000:])
    if res.rc in (12, 13) and not res.violated:
        res.violated = "unknown"
    return res


def tlc_ok(res, what):
    """Raise FrameworkError on model failure; return True if no violation."""
    if res.error:
        raise FrameworkError(res.error)
    return res.violated is None


def validate_trace(module, trace_path, cfg=None, timeout=600, env=None, dfs=False, heap="8g", json_sink=None):
    """Trace validation idiom: the trace spec declares INVARIANT NotAccepted (l <= Len(Log));
    the trace is ACCEPTED iff TLC reports that invariant violated.  Returns
    (accepted, matched_prefix_len, TlcResult)."""
    e = {"TRACE": trace_path}
    if env:
        e.update(env)
    res = run_tlc(module, cfg=cfg, workers=1, timeout=timeout, env=e, dfs=dfs, heap=heap,
                  collect_json=json_sink is not None, json_sink=json_sink)
    if res.error:
        raise FrameworkError(res.error)
    if res.violated == "NotAccepted":
        return True, None, res
    if res.violated is not None:
        # some other invariant of the spec was violated by the observed behaviour
        return False, max(res.depth - 1, 0), res
    return False, max(res.depth - 1, 0), res


# --------------------------------------------------------------------------- findings

def load_findings():
    p = os.path.join(VERIF, "known_findings.json")
    if not os.path.exists(p):
        return []
    return json.load(open(p)).get("findings", [])


class Check:
    """Accumulates the outcome of one check run and writes evidence/<id>.json."""

    def __init__(self, pid, tier, level):
        self.pid = pid
        self.tier = tier
        self.level = level
        self.t0 = time.time()
        self.violations = []       # (key, description, replay)
        self.known_hits = {}
        self.violation_counts = {}
        self.cov = {"samples": []}
        self.tlc_runs = []
        self.assumptions = []
        self.findings = [f for f in load_findings() if f.get("property") == pid and f.get("status") == "known"]
        self.replay_dir = ensure_dir(os.path.join(WORK, "replay", pid))

    # -- coverage helpers
    def add(self, key, n=1):
        self.cov[key] = self.cov.get(key, 0) + n

    def set(self, key, v):
        self.cov[key] = v

    def sample(self, s, cap=8):
        if len(self.cov["samples"]) < cap:
            self.cov["samples"].append(s)

    def tlc(self, res, name):
        if res.error:
            raise FrameworkError(res.error)
        self.tlc_runs.append(res.summary(name))
        self.add("states", res.distinct)
        self.add("transitions", res.generated)

    def replay_file(self, name, content=None):
        p = os.path.join(self.replay_dir, name)
        if content is not None:
            with open(p, "w") as f:
                f.write(content)
        return p

    # -- verdicts
    def violation(self, key, desc, replay):
        """key: a stable identifier of the specific failing input / call site / history."""
        for f in self.findings:
            if re.fullmatch(f["key"], key) if f.get("regex") else f["key"] == key:
                self.known_hits.setdefault(f["key"], f)
                return False
        self.violation_counts[key] = self.violation_counts.get(key, 0) + 1
        if self.violation_counts[key] > 1:
            return True   # same key again: counted, reported once
        self.violations.append((key, desc, replay))
        log("VIOLATION property=%s replay=%s" % (self.pid, replay))
        log("  what: %s [key=%s]" % (desc, key))
        return True

    def finish(self):
        for k, f in self.known_hits.items():
            log("KNOWN-FINDING: property=%s %s" % (self.pid, f.get("what", k)))
        wall = time.time() - self.t0
        cov = dict(self.cov)
        if self.tlc_runs:
            cov["tlc_runs"] = self.tlc_runs
        if self.level == "model_checking":
            cov.setdefault("states", 0)
            cov.setdefault("transitions", 0)
            cov.setdefault("traces_validated_against_impl", 0)
        if "evaluations" in cov or self.level in ("exploration", "fault_enumeration"):
            cov.setdefault("evaluations", 0)
            cov.setdefault("distinct_nontrivial", 0)
            cov.setdefault("rule", "")
        if not cov["samples"]:
            cov["samples"] = ["(no sample recorded)"]
        ev = {"property_id": self.pid, "tier": self.tier, "seed": seed(), "level": self.level,
              "coverage": cov, "assumptions": self.assumptions, "wall_s": round(wall, 2),
              "violations": len(self.violations),
              "known_findings_hit": sorted(self.known_hits.keys()),
              "violation_keys": self.violation_counts}
        ensure_dir(EVID)
        tmp = os.path.join(EVID, self.pid + ".json.tmp")
        with open(tmp, "w") as f:
            json.dump(ev, f, indent=1, sort_keys=True)
            f.write("\n")
        os.replace(tmp, os.path.join(EVID, self.pid + ".json"))
        log("[%s] %s tier: %d violation(s), %d known finding(s), %.1fs" %
            (self.pid, self.tier, len(self.violations), len(self.known_hits), wall))
        return 1 if self.violations else 0


def digest(obj):
    return hashlib.sha1(json.dumps(obj, sort_keys=True).encode()).hexdigest()[:12]


def write_ndjson(path, rows):
    with open(path, "w") as f:
        for r in rows:
            f.write(json.dumps(r, separators=(",", ":")) + "\n")


def read_ndjson(path):
    out = []
    with open(path) as f:
        for line in f:
            line = line.strip()
            if line:
                out.append(json.loads(line))
    return out


# --------------------------------------------------------------------------- state graphs (M1 / M3')

class Graph:
    """State graph dumped by a spec through `ACTION_CONSTRAINT Dump` (one JSON object per
    explored transition: src, dst = state keys, act, args, exp)."""

    def __init__(self, edges):
        self.ids = {}
        self.edges = []
        for e in edges:
            s = self._id(e["src"])
            d = self._id(e["dst"])
            row = {"s": s, "d": d, "a": e["act"], "args": e.get("args", {}), "exp": e.get("exp", {})}
            if "perm" in e:
                row["perm"] = e["perm"]
            self.edges.append(row)
        self.root = 0

    def _id(self, key):
        k = key if isinstance(key, str) else json.dumps(key, sort_keys=True)
        if k not in self.ids:
            self.ids[k] = len(self.ids)
        return self.ids[k]

    def write(self, path):
        write_ndjson(path, self.edges)
        return path

    def check_connected(self):
        seen = {self.root}
        adj = {}
        for e in self.edges:
            adj.setdefault(e["s"], []).append(e["d"])
        stack = [self.root]
        while stack:
            x = stack.pop()
            for y in adj.get(x, []):
                if y not in seen:
                    seen.add(y)
                    stack.append(y)
        if len(seen) != len(self.ids):
            raise FrameworkError("dumped state graph is not connected from its first state")
