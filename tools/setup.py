#!/usr/bin/env python3
"""MANIFEST.setup_cmd: build everything the checks need from files on disk (offline).
The checks rebuild incrementally themselves; this only warms the build tree and ccache."""
import os
import sys
sys.path.insert(0, os.path.dirname(os.path.abspath(__file__)))
import vlib

def main():
    vlib.ensure_dir(vlib.WORK)
    vlib.build_lib("plain")
    import manifest
    for name, needs_lib, san in manifest.HARNESSES:
        try:
            vlib.build_harness(name, needs_lib=needs_lib, san=san)
        except vlib.FrameworkError as ex:
            print("setup: %s" % ex)
            return 1
    return 0

if __name__ == "__main__":
    sys.exit(main())
