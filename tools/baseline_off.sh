#!/bin/sh
# Runs the repository's pinned test suite with the OMPL_VERIF guard OFF (the _build tree is
# configured without the define), rebuilding from /repo's working tree first.
set -e
cmake --build /repo/_build -j8 >/dev/null
exec ctest --test-dir /repo/_build -j8 --timeout 900
