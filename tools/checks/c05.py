"""C05 - a motion is valid exactly when every resolution step along it is valid.

1. TLC model-checks base/MotionCheck.tla: the linear form, the bisection form and the two
   state-list overloads, transcribed as step machines, against the contract of
   base/MotionContract.tla for EVERY segment count n <= N and EVERY validity predicate on the
   lattice (all 2^n subsets, as initial states).  Each case is printed with the
   contract-computed expectation (verdict, last-valid index, counter).
2. Every case is replayed on the real validators (M3): R^1 (count factor 1, 2, 3, from a
   bound), SO(2) across the seam, SE(2), a weighted compound, DubinsMotionValidator,
   ReedsSheppMotionValidator and Dubins3DMotionValidator (Owen, Vana, Vana-Owen spaces) on
   straight pose pairs; list cases on
   SpaceInformation::checkMotion(states,count[,first]) fed by getMotionStates.
3. base/SegmentCount.tla: factor * ceil(d / L) and the compound maximum, every (d, L, f),
   replayed on StateSpace::validSegmentCount (run before 2: the pose pairs of 2 rely on it).
4. Random curved Dubins / Reeds-Shepp / SE(2) motions under random predicates are recorded
   and validated by TLC against the contract (base/MotionCheckTrace.tla).
"""
import json
import os
import shutil
import time
import vlib
from vlib import Check, run_tlc, run_cmd, build_harness, validate_trace, FrameworkError, WORK, log

PID = "C05"

INVARIANTS = ("NoIndexOutside NeverTwice Shape FormsAgree VerdictCorrect LastValidCorrect CountersCorrect "
              "BisectVisitsEachOnce LinearVisitsInOrder LinearStopsAtFirst ListCorrect ListVisitsEachOnce "
              "ListNoCounters EmitCase")
ACTIONS = ["LinScan", "LinEnd", "LinCount", "BisEnd", "BisStep", "BisCount", "LstSmall", "LstFront",
           "LstBack", "LstStep", "LstRet", "LfiScan", "LfiRet"]
BINDINGS = ["r1", "r1-rev-from-bound", "r1-factor2", "r1-factor3", "so2-seam", "so2-seam-neg", "se2-x",
            "se2-yaw-seam", "compound-first-leads", "compound-second-leads", "dubins",
            "dubins-symmetric-reversed", "reedsshepp", "reedsshepp-backwards", "owen", "vana", "vanaowen"]


def _cfg_dir():
    return vlib.ensure_dir(os.path.join(WORK, "cfg-c05"))


def _cfg_motion(n):
    p = os.path.join(_cfg_dir(), "motion-%d.cfg" % n)
    open(p, "w").write("SPECIFICATION Spec\nCONSTANTS\n  N = %d\nINVARIANTS %s\n" % (n, INVARIANTS))
    return p


def _cfg_seg(maxd, maxl, maxf, maxdc):
    p = os.path.join(_cfg_dir(), "seg-%d-%d-%d-%d.cfg" % (maxd, maxl, maxf, maxdc))
    open(p, "w").write("SPECIFICATION Spec\nCONSTANTS\n  MaxD = %d\n  MaxL = %d\n  MaxF = %d\n  MaxDC = %d\n"
                       "INVARIANTS SingleOk CompoundOk EmitCase\n" % (maxd, maxl, maxf, maxdc))
    return p


def _parse(out, tag):
    for line in out.splitlines():
        if line.startswith(tag + " "):
            return json.loads(line[len(tag) + 1:])
    return None


def _case_order(c):
    kind = {"states": 0, "motion": 1, "list": 2}[c["k"]]
    if kind == 0:
        return (0, c["count"], int(c["endpoints"]), 0)
    return (kind, c["nd"], len(c["valid"]), sum(1 << j for j in c["valid"]))


def _run_binary(cmd, timeout=None, env=None):
    """run_cmd, retried while libompl.so is being relinked by a concurrent build of the shared work tree."""
    for attempt in range(6):
        rc, out, err = run_cmd(cmd, timeout=timeout, env=env)
        if rc == 127 and "error while loading shared libraries" in err:
            time.sleep(10)
            continue
        break
    return rc, out, err


def _run_harness(ck, binary, mode, path, label, timeout=3000):
    """Run one harness pass; turn every failure key into a violation.  Returns the summary."""
    rc, out, err = _run_binary([binary, mode, path], timeout=timeout)
    fw = _parse_text(out, "FRAMEWORK")
    if fw is not None:
        raise FrameworkError("motion harness (%s): %s" % (label, fw))
    summ = _parse(out, "SUMMARY")
    if summ is None:
        if "CRASH" in out or rc in (70, 77, 78) or rc < 0:
            rp = ck.replay_file("%s-crash.ndjson" % label)
            shutil.copyfile(path, rp)
            ck.violation("crash:" + label, "motion harness crashed / sanitizer abort while replaying specification "
                         "cases: " + (err or out)[-800:], rp)
            return None
        raise FrameworkError("motion %s produced no summary (rc=%s): %s" % (mode, rc, (out + err)[-2000:]))
    # group the failing (binding, clause) pairs by (family, clause): one violation per clause of
    # one validator, saying whether every binding of that validator shows it or only some
    groups = {}
    for f in summ["first_failures"]:
        groups.setdefault((f["family"], f["clause"]), []).append(f)
    for (family, clause), fs in sorted(groups.items()):
        fs.sort(key=lambda f: f["binding"])
        failing = [f["binding"] for f in fs]
        every = sorted(summ.get("families", {}).get(family, []))
        key = "%s|%s" % (family, clause)
        if failing != every:
            key += "|only:" + "+".join(failing)
        f = fs[0]
        case = dict(f["case"])
        case["binding"] = f["binding"]
        name = "".join(ch if ch.isalnum() else "-" for ch in key)[:90]
        prefix = "segcount-" if mode == "segcount" else "case-"
        rp = ck.replay_file(prefix + name + ".ndjson", json.dumps(case, separators=(",", ":")) + "\n")
        total = sum(summ["failure_keys"][x["key"]] for x in fs)
        ck.violation(key, "%d replay(s) of specification cases fail on the real code in %d of %d binding(s) of %s (%s); "
                     "first: binding %s, case %s: %s"
                     % (total, len(failing), len(every), family, ", ".join(failing), f["binding"],
                        json.dumps({k: f["case"][k] for k in f["case"]
                                    if k in ("k", "nd", "valid", "a", "b", "count", "endpoints")}), f["why"]), rp)
    return summ


def _parse_text(out, tag):
    for line in out.splitlines():
        if line.startswith(tag + " "):
            return line[len(tag) + 1:]
    return None


def run(tier):
    ck = Check(PID, tier, "model_checking")
    ck.assumptions += ["the start state of a motion is valid (documented precondition of checkMotion): lattice point 0 "
                       "is never in question, and identical states (nd = 0) are valid",
                       "the validity predicate is a function of the state",
                       "the subdivision lattice of a pair is interpolate(s1, s2, k/nd) with nd = the space's "
                       "validSegmentCount; exact bindings place it on arithmetic lattices (deviation measured, <= 1e-7)",
                       "curved Dubins / Reeds-Shepp motions are judged by trace validation against the recorded "
                       "predicate, not against an exact model; Dubins3DMotionValidator (Owen/Vana/Vana-Owen spaces) is "
                       "bound on straight level pairs only"]
    binary = build_harness("motion", needs_lib=True, san="asan")
    if tier == "quick":
        n, seg, ntrace, nfiles = 10, (16, 4, 3, 6), 3000, 1
    else:
        n, seg, ntrace, nfiles = 14, (24, 5, 3, 8), 10000, 3

    # 1. exhaustive model check + case enumeration
    cases = []
    res = run_tlc("base/MotionCheck", cfg=_cfg_motion(n), workers=vlib.NCPU, timeout=3000, coverage=True,
                  json_sink=cases.append)
    ck.tlc(res, "MotionCheck-N%d" % n)
    if res.violated:
        # the transcription of the algorithm breaks the contract: design-level finding; the verdict
        # on the code comes from the replay below, which covers the same cases
        log("[C05] note: TLC reports %s violated in the algorithm model" % res.violated)
        ck.set("model_violation", res.violated)
    never = [a for a in ACTIONS if res.coverage.get(a, (0, 0))[0] == 0]
    if never and not res.violated:
        raise FrameworkError("vacuity gate: model actions never taken: %s" % never)
    ck.set("model_action_counts", {a: res.coverage.get(a, (0, 0))[0] for a in ACTIONS})
    want = 2 * (2 ** (n + 1) - 1)
    got = sum(1 for c in cases if c["k"] in ("motion", "list"))
    nstates = sum(1 for c in cases if c["k"] == "states")
    if not res.violated and (got != want or nstates != 2 * (n + 1)):
        raise FrameworkError("TLC emitted %d motion/list cases and %d state-extraction cases, expected %d and %d "
                             "(a machine of the model got stuck?)" % (got, nstates, want, 2 * (n + 1)))
    cases.sort(key=_case_order)
    cpath = os.path.join(WORK, "c05-cases-N%d.ndjson" % n)
    vlib.write_ndjson(cpath, cases)
    ck.set("exhaustive", True)
    ck.set("max_segment_count", n)
    ck.set("predicates_enumerated", got)

    # 2. segment count rule (first: the replay below relies on it to build its pairs)
    segcases = []
    res = run_tlc("base/SegmentCount", cfg=_cfg_seg(*seg), workers=vlib.NCPU, timeout=3000, json_sink=segcases.append)
    ck.tlc(res, "SegmentCount-%d-%d-%d-%d" % seg)
    if res.violated:
        log("[C05] note: TLC reports %s violated in SegmentCount" % res.violated)
        ck.set("model_violation_segcount", res.violated)
    wantseg = (seg[0] + 1) * seg[1] * seg[2] + ((seg[3] + 1) * seg[1] * seg[2]) ** 2
    if not res.violated and len(segcases) != wantseg:
        raise FrameworkError("SegmentCount emitted %d cases, expected %d" % (len(segcases), wantseg))
    segcases.sort(key=lambda c: json.dumps(c, sort_keys=True))
    spath = os.path.join(WORK, "c05-segcount.ndjson")
    vlib.write_ndjson(spath, segcases)
    ssum = _run_harness(ck, binary, "segcount", spath, "segcount")
    seg_broken = ssum is None or ssum["failures"] > 0
    if ssum is not None:
        ck.add("traces_validated_against_impl", ssum["scenarios"])
        ck.add("cases_replayed", ssum["scenarios"])
        ck.set("segment_count_cases", {"single": ssum["single"], "compound": ssum["compound"]})
        # observation, not part of C05: CompoundStateSpace::validSegmentCount ignores the factor set on the
        # compound itself (only the components' factors count)
        ck.set("compound_own_factor_ignored_cases", ssum["compound_own_factor_ignored"])
        ck.sample({"kind": "segment count case", "case": segcases[len(segcases) // 2]})

    # 3. every case on every binding
    summ = _run_harness(ck, binary, "replay", cpath, "replay")
    if summ is not None:
        ck.add("traces_validated_against_impl", summ["scenarios"])
        ck.add("cases_replayed", summ["scenarios"])
        ck.set("bindings", summ["bindings"])
        ck.set("replay_vacuity", summ["vacuity"])
        ck.set("list_cases_replayed", summ["list_replayed"])
        ck.set("state_extraction_cases_replayed", summ["states_replayed"])
        mism = {b: v["segment_count_mismatch"] for b, v in summ["bindings"].items() if v["segment_count_mismatch"]}
        if mism:
            if not seg_broken:
                raise FrameworkError("pose pairs do not realize the intended segment count although the segment-count "
                                     "stage passed: %s" % mism)
            log("[C05] note: replay skipped where validSegmentCount is off (reported by the segment-count stage): %s" % mism)
            ck.set("replay_skipped_segment_count_mismatch", mism)
        empty = [b for b in BINDINGS if summ["bindings"].get(b, {}).get("replayed", 0) == 0 and b not in mism]
        zero = [k for k, v in summ["vacuity"].items() if v == 0]
        if empty or summ["list_replayed"] == 0 or summ["states_replayed"] == 0:
            raise FrameworkError("vacuity gate: bindings without a replayed case %s" % empty)
        if zero and not summ["failures"]:
            # (a tree that fails the replay may legitimately never take a branch; it is alarming already)
            raise FrameworkError("vacuity gate: branches of the real code never taken: %s" % zero)
        dev = max(b["max_lattice_dev"] for b in summ["bindings"].values())
        ck.set("max_lattice_deviation", dev)
        for c in cases:
            if c["k"] == "motion" and c["nd"] == 5 and len(c["valid"]) == 4:
                ck.sample({"kind": "replayed case (all %d bindings)" % len(summ["bindings"]), "case": c})
                break
        for c in cases:
            if c["k"] == "list" and c["nd"] == 4 and c["valid"] == [0, 1, 3]:
                ck.sample({"kind": "replayed list case", "case": c})

    # 4. recorded curved motions validated against the contract
    for i in range(nfiles):
        tpath = os.path.join(WORK, "c05-trace-%d.ndjson" % i)
        rc, out, err = _run_binary([binary, "record", tpath, str(ntrace)], timeout=1200,
                                   env={"VERIF_SEED": str(vlib.seed() * 131 + i)})
        fw = _parse_text(out, "FRAMEWORK")
        if fw is not None:
            raise FrameworkError("motion record: " + fw)
        rec = _parse(out, "RECORDED")
        if rc != 0 or rec is None:
            rp = ck.replay_file("trace-%d.ndjson" % i)
            if os.path.exists(tpath):
                shutil.copyfile(tpath, rp)
            ck.violation("record-crash", "motion harness crashed / sanitizer abort while recording curved motions: "
                         + (err or out)[-800:], rp)
            continue
        if rec["invalid_motions"] == 0 or rec["invalid_motions"] == rec["motions"] or len(rec["per_space"]) < 6:
            raise FrameworkError("vacuity gate: recorded motions are all valid / all invalid / miss a space: %s" % rec)
        acc, prefix, tres = validate_trace("base/MotionCheckTrace", tpath, timeout=1200)
        ck.add("trace_events", rec["events"])
        ck.add("skipped_ambiguous_curved_pairs", rec["skipped_ambiguous"])
        ck.set("recorded_max_nd", max(ck.cov.get("recorded_max_nd", 0), rec["max_nd"]))
        if acc:
            ck.add("traces_validated_against_impl", rec["motions"])
            ck.add("recorded_motions_validated", rec["motions"])
            ck.add("trace_files_validated", 1)
            if i == 0:
                ck.set("recorded_per_space", rec["per_space"])
                evs = vlib.read_ndjson(tpath)
                pick = [e for e in evs[1:200] if e.get("nd", 99) <= 8 and not e["lin"]["r"]][:1]
                ck.sample({"kind": "recorded curved motion", "event": pick[0] if pick else evs[1]})
        else:
            rp = ck.replay_file("trace-%d.ndjson" % i)
            shutil.copyfile(tpath, rp)
            evs = vlib.read_ndjson(tpath)
            bad = evs[prefix] if prefix < len(evs) else {}
            ck.violation("trace:" + str(bad.get("v", bad.get("e"))),
                         "recorded motion check rejected by the contract at event %d of %d: %s"
                         % (prefix + 1, len(evs), json.dumps(bad)[:1500]), rp)
    return ck.finish()


def replay(path):
    """Re-execute a replay artefact: trace-*.ndjson is re-validated by TLC, segcount-*.ndjson and
    case files (one TLC case per line, optional "binding") are re-run on the real code."""
    base = os.path.basename(path)
    if base.startswith("trace"):
        acc, prefix, res = validate_trace("base/MotionCheckTrace", path)
        print("accepted" if acc else "REJECTED at event %d" % (prefix + 1))
        return 0 if acc else 1
    binary = build_harness("motion", needs_lib=True, san="asan")
    rc, out, err = run_cmd([binary, "segcount" if base.startswith("segcount") else "replay", path])
    print(out[-4000:])
    if err.strip():
        print(err[-2000:])
    return 1 if rc else 0
