"""C03 for control planners - interrupting, resuming or clearing a control planner never corrupts its result.

control_lifecycle(ck, tier): histories are walks through the state graph of the life-cycle protocol
model (specs/base/PlannerLifecycle.tla, exported by c03.lifecycle_graph) plus the k-sweep
solve(k); getPlannerData; solve(k2) for every k, executed by `control c03ctl` on every control
planner variant (RRT with / without intermediate states, SST, EST, KPIECE1, PDST, SyclopRRT,
SyclopEST) x system (point, car, double integrator) with a termination condition that first fires at
the k-th evaluation and allocation-counting state spaces.  The recorded executions are replayed
through the same TLA+ actions and every report is judged by specs/control/ControlLifecycleTrace.tla:
the life-cycle clauses of C03 plus, for every ADDED solution, the path clauses of
ControlPathContract (replay through the harness's own propagator etc.).
Violation keys: ctrl:<planner>:<clause>.
"""
import json
import os
import random
import vlib
import planrun
import c03
from vlib import build_harness, validate_trace, FrameworkError, WORK, log

TRACE_SPEC = "control/ControlLifecycleTrace"
PLANNERS = ["RRT", "RRTi", "SST", "EST", "KPIECE1", "PDST", "SyclopRRT", "SyclopEST"]
DIRECTED = {"RRT", "RRTi", "EST", "PDST", "SyclopRRT"}
SYSTEMS = {"point": (250000, 100000), "car": (200000, 125000), "dint": (250000, 100000)}
DURATIONS = [(1, 1), (1, 10), (3, 7)]
# 4x4 maps (cell = y*4+x): open, one block, wall, centre block, corner passage, enclosed corner, slalom
MAPS = [[], [6], [1, 5, 9], [5, 6, 9, 10], [1, 4], [10, 11, 14], [1, 5, 9, 7, 11, 15], [2, 7, 8, 13]]


def _mask(cells):
    m = 0
    for c in cells:
        m |= 1 << c
    return m


def requery_history(rng, kchoices):
    """solve; change the query; clear; solve again; switch definition; clear; solve: the clauses about
    forgetting the old query (freshForgetsOldQueries, plannerDataForgetsOldQueries) get their antecedent."""
    k = lambda: rng.choice(kchoices)
    return [{"a": "SetPdef", "p": "A"}, {"a": "Solve", "k": k()}, {"a": "NewQuery", "p": "A"},
            {"a": rng.choice(["Clear", "ClearQuery"])}, {"a": "Solve", "k": k()}, {"a": "GetPlannerData"},
            {"a": "SetPdef", "p": "B"}, {"a": "Clear"}, {"a": "Solve", "k": k()}, {"a": "GetPlannerData"},
            {"a": "Solve", "k": k()}, {"a": "Destroy"}]


def early_data_history(rng, kchoices):
    """getPlannerData() on a planner that has not been set up yet, then an ordinary interrupted solve."""
    return [{"a": "SetPdef", "p": "A"}, {"a": "GetPlannerData"}, {"a": "Solve", "k": rng.choice(kchoices)},
            {"a": "GetPlannerData"}, {"a": "Destroy"}]


def _is_walk(out, ops):
    """True iff the history is a walk through the exported state graph of PlannerLifecycle.tla."""
    s = 0
    for op in ops:
        nxt = [e for e in out.get(s, []) if e["a"] == op["a"] and (op["a"] not in ("SetPdef", "NewQuery") or e["args"]["p"] == op["p"])]
        if not nxt:
            return False
        s = nxt[0]["d"]
    return True


def _jobs(tier, out):
    rng = random.Random(vlib.seed() * 104729 + 31)
    if tier == "quick":
        n_hist, maxlen, sweep_ks, sweep_k2, n_requery = 8, 8, list(range(0, 22)), ["k60"], 3
    else:
        n_hist, maxlen, sweep_ks, sweep_k2, n_requery = 150, 10, list(range(0, 140)) + [150, 200, 250, 400], ["k3", "k150", "inf"], 40
    jobs, jid = [], 0
    for planner in PLANNERS:
        hs = [c03.random_history(out, rng, maxlen, c03.KNAMES) for _ in range(n_hist)]
        for k in sweep_ks:
            hs.append(c03.sweep_history(k, rng.choice(sweep_k2)))
        for _ in range(n_requery):
            hs.append(requery_history(rng, ["k8", "k34", "k150", "k400", "inf"]))
        for _ in range(max(1, n_requery // 3)):
            hs.append(early_data_history(rng, ["k5", "k60", "k400"]))
        for h in hs:
            if not _is_walk(out, h):
                raise FrameworkError("history is not a walk of the life-cycle model: %s" % h)
        for h in hs:
            system = rng.choice(list(SYSTEMS))
            mn, mx = rng.choice(DURATIONS)
            jid += 1
            jobs.append({"id": jid, "planner": planner, "system": system, "obst": _mask(rng.choice(MAPS)),
                         "minD": mn, "maxD": mx, "stepMicro": rng.choice(SYSTEMS[system]),
                         "dcs": rng.choice([1, 3]) if planner in DIRECTED else 1,
                         "thr": rng.choice(["normal", "normal", "normal", "tiny"]),
                         "seed": rng.randrange(1, 1 << 30), "ops": h})
    rng.shuffle(jobs)
    return jobs


def _judge(trace):
    rows = vlib.read_ndjson(trace)
    bad = []
    acc, prefix, res = validate_trace(TRACE_SPEC, trace, timeout=6 * 3600, json_sink=bad.append)
    if not acc:
        raise FrameworkError("control life-cycle trace not consumed (event %s: %s): %s" %
                             (prefix + 1, json.dumps(rows[prefix])[:300] if prefix < len(rows) else "?", res.out[-1200:]))
    seen, verdicts = set(), []
    for b in bad:
        if "line" in b and "failed" in b and b["line"] not in seen:
            seen.add(b["line"])
            verdicts.append(b)
    return rows, verdicts


def _ops_text(job):
    return [op["a"] + (":" + op.get("k", op.get("p", "")) if op.get("k") or op.get("p") else "") for op in (job or {}).get("ops", [])]


def _binding_gate(ck, rows):
    """Hand-corrupt one field at a time in a recorded, accepted sweep execution (Reset, SetPdef, Solve,
    GetPlannerData, Solve, GetPlannerData, Destroy); the trace spec must name the matching clause."""
    blocks, cur = [], []
    for r in rows:
        if r["e"] == "Reset" and cur:
            blocks.append(cur)
            cur = []
        cur.append(r)
    blocks.append(cur)
    seed_block = None
    for b in blocks:
        if [r["e"] for r in b] == ["Reset", "SetPdef", "Solve", "GetPlannerData", "Solve", "GetPlannerData", "Destroy"] \
                and b[2]["status"] in ("EXACT_SOLUTION", "APPROXIMATE_SOLUTION") and any(x["added"] for x in b[2]["sols"]) \
                and b[2]["kval"] >= 0 and b[6]["live"] == 0 and b[6]["badFrees"] == 0 and b[3]["stale"] == 0 \
                and all(x["stale"] == 0 for x in b[2]["sols"]) and b[4]["nBefore"] >= 1:
            seed_block = b
            break
    if seed_block is None:
        raise FrameworkError("binding gate (C03 control): no clean sweep execution recorded")

    def added(ev):
        return next(x for x in ev["sols"] if x["added"])
    muts = [
        ("noLeakAfterGetPlannerData", lambda b: b[6].__setitem__("live", 3)),
        ("noDoubleFree", lambda b: b[6].__setitem__("badFrees", 1)),
        ("boundedReturn", lambda b: b[2].__setitem__("evals", b[2]["kval"] + 100)),
        ("freshForgetsOldQueries", lambda b: added(b[2]).__setitem__("stale", 1)),
        ("replayMatches", lambda b: added(b[2]).__setitem__("replayMatches", False)),
        ("allStepsValid", lambda b: added(b[2]).__setitem__("allStepsValid", False)),
        ("startIsAStart", lambda b: added(b[2]).__setitem__("startIsAStart", False)),
        ("durationsWholeSteps", lambda b: added(b[2]).__setitem__("durationsWholeSteps", False)),
        ("nonSolutionAddsNothing", lambda b: b[2].__setitem__("status", "TIMEOUT")),
        ("exactStatusHoldsExact", lambda b: (b[2].__setitem__("status", "EXACT_SOLUTION"), b[2].__setitem__("hasExact", False))),
        ("noSolutionLost", lambda b: b[4].__setitem__("nAfter", b[4]["nBefore"] - 1)),
        ("solutionsVanishedBetweenCalls", lambda b: b[4].__setitem__("nBefore", b[4]["nBefore"] + 1)),
        ("plannerDataForgetsOldQueries", lambda b: b[3].__setitem__("stale", 2)),
        ("Crash", lambda b: b.insert(3, {"e": "Crash", "what": "SIGSEGV"})),
        ("Hang", lambda b: b.insert(3, {"e": "Hang", "planner": b[0]["planner"]})),
    ]
    out_rows, spans = [], []
    for clause, fn in muts:
        b = json.loads(json.dumps(seed_block))
        fn(b)
        spans.append((len(out_rows) + 1, len(out_rows) + len(b), clause))
        out_rows += b
    tp = os.path.join(WORK, "c03ctl-selftest-%d.ndjson" % os.getpid())
    vlib.write_ndjson(tp, out_rows)
    _, verdicts = _judge(tp)
    os.unlink(tp)
    missed = []
    for lo, hi, clause in spans:
        got = {c for v in verdicts if lo <= v["line"] <= hi for c in v["failed"]}
        if clause not in got:
            missed.append(clause)
    if missed:
        raise FrameworkError("binding gate (C03 control): corrupted executions not rejected by clauses %s" % missed)
    ck.set("control_corrupted_executions_rejected", len(muts))


def control_lifecycle(ck, tier, graph=None, binary=None):
    """Adds the control-planner half of C03 to the check `ck`.  graph: optional (g, out) from
    c03.lifecycle_graph(ck) when the caller has already computed it."""
    binary = binary or build_harness("control", needs_lib=True)
    g, out = graph if graph is not None else c03.lifecycle_graph(ck)
    jobs = _jobs(tier, out)
    jpath = os.path.join(WORK, "c03ctl-jobs-%d.ndjson" % os.getpid())
    vlib.write_ndjson(jpath, jobs)
    # glibc fills every malloc'ed / freed block with a byte pattern: a read of an uninitialised member or of
    # freed memory no longer depends on what the heap happened to contain (deterministic verdicts)
    saved = os.environ.get("MALLOC_PERTURB_")
    os.environ["MALLOC_PERTURB_"] = "165"
    try:
        trace, total, notes = planrun.run_sharded(binary, "c03ctl", jpath, os.path.join(WORK, "c03ctl-trace-%d" % os.getpid()))
    finally:
        if saved is None:
            del os.environ["MALLOC_PERTURB_"]
        else:
            os.environ["MALLOC_PERTURB_"] = saved
    for n in notes:
        log("[C03 control] " + n)
    rows, verdicts = _judge(trace)
    owner, cur = [], None
    for r in rows:
        if r["e"] == "Reset":
            cur = r
        owner.append(cur)
    jobs_by_id = {j["id"]: j for j in jobs}
    for b in verdicts:
        r, o = rows[b["line"] - 1], owner[b["line"] - 1]
        pl = (o or r).get("planner", r.get("planner", "?"))
        job = jobs_by_id.get((o or r).get("job"))
        for clause in sorted(b["failed"]):
            if clause in ("Crash", "Hang"):
                clause += ":" + str(r.get("op", "?"))     # the call it happened in
            rp = ck.replay_file("ctrl-job-%s-%s.json" % (pl, clause.replace(":", "-")), json.dumps({"job": job, "event": r}, indent=1))
            ck.violation("ctrl:%s:%s" % (pl, clause),
                         "control planner %s on %s, history %s: event %s fails clause '%s' (status %s, k=%s, evals=%s, live=%s)" %
                         (pl, (job or {}).get("system"), _ops_text(job), r["e"], clause, r.get("status"), r.get("k"),
                          r.get("evals"), r.get("live")), rp)
    # ---- coverage / vacuity
    execs = sum(1 for r in rows if r["e"] == "Reset")
    solves = [r for r in rows if r["e"] == "Solve"]
    ck.add("traces_validated_against_impl", execs)
    ck.set("control_lifecycle_executions", execs)
    ck.set("control_events", len(rows))
    ck.set("control_solve_calls", len(solves))
    ck.set("control_resumed_or_interrupted_solves", sum(1 for r in solves if r["nBefore"] > 0 or r["kval"] >= 0))
    over, st, added = {}, {}, {}
    for r in solves:
        if r["kval"] >= 0:
            over[r["planner"]] = max(over.get(r["planner"], 0), r["evals"] - r["kval"])
        st[r["status"]] = st.get(r["status"], 0) + 1
        added[r["planner"]] = added.get(r["planner"], 0) + sum(1 for s in r["sols"] if s["added"])
    ck.set("control_max_evaluations_after_k", over)
    ck.set("control_status_counts", st)
    ck.set("control_added_solutions_judged_by_path_clauses", added)
    destroys = [r for r in rows if r["e"] == "Destroy"]
    ck.set("control_destroy_reports", len(destroys))
    ck.set("control_states_outstanding_at_destroy", {p: sum(r["live"] for r, o in zip(rows, owner) if r["e"] == "Destroy" and o and o["planner"] == p)
                                                     for p in PLANNERS})
    ck.set("control_controls_outstanding_at_destroy", {p: sum(r.get("liveControls", 0) for r, o in zip(rows, owner) if r["e"] == "Destroy" and o and o["planner"] == p)
                                                       for p in PLANNERS})
    # solves on a planner that had been cleared / re-bound after solving an earlier query (antecedent of freshForgetsOldQueries)
    fresh_again = 0
    for j in jobs:
        seen_solve = cleared = False
        for op in j["ops"]:
            if op["a"] == "Solve":
                fresh_again += 1 if (seen_solve and cleared) else 0
                seen_solve, cleared = True, False
            elif op["a"] in ("Clear", "ClearQuery"):
                cleared = True
    ck.set("control_solves_after_clear", fresh_again)
    missing = [p for p in PLANNERS if p not in over or not added.get(p)]
    if (missing or st.get("EXACT_SOLUTION", 0) < 8 or st.get("APPROXIMATE_SOLUTION", 0) < 8 or st.get("TIMEOUT", 0) < 8
            or len(destroys) < execs // 2 or fresh_again < 8) and not ck.violations:
        raise FrameworkError("vacuity gate (C03 control): planners without interrupted solves / added solutions %s, statuses %s, "
                             "%d destroy reports of %d executions, %d solves after clear" % (missing, st, len(destroys), execs, fresh_again))
    _binding_gate(ck, rows)
    ex = [r for r in rows[:60] if r["e"] in ("SetPdef", "Solve", "Clear", "Destroy")][:6]
    ck.sample({"kind": "recorded control life cycle excerpt",
               "events": [{k: v for k, v in r.items() if k in ("e", "p", "k", "planner", "system", "status", "evals", "nBefore", "nAfter", "live")}
                          for r in ex]})
    ck.sample({"kind": "control history", "planner": jobs[0]["planner"], "system": jobs[0]["system"], "ops": jobs[0]["ops"]})
    for f in (jpath, trace):
        if os.path.exists(f):
            os.unlink(f)
    return execs


def replay_control(path):
    """Re-executes the job stored in a replay artefact (ctrl-job-*.json) and re-validates it."""
    d = json.load(open(path))
    binary = build_harness("control", needs_lib=True)
    wd = vlib.ensure_dir(os.path.join(WORK, "replay", "C03"))
    jp = os.path.join(wd, "ctrl-job.ndjson")
    vlib.write_ndjson(jp, [d["job"]])
    out = os.path.join(wd, "ctrl-rerun.ndjson")
    if os.path.exists(out):
        os.unlink(out)
    os.environ["MALLOC_PERTURB_"] = "165"
    planrun.run_shard(binary, "c03ctl", jp, out, 0, 1)
    rows, verdicts = _judge(out)
    fails = sorted({c for b in verdicts for c in b["failed"]})
    for b in verdicts:
        print("event %d %s: %s" % (b["line"], rows[b["line"] - 1]["e"], sorted(b["failed"])))
    print("re-run:", "REJECTED %s" % fails if fails else "accepted")
    return 1 if fails else 0
