"""C04 - reported solution costs are truthful, admissible-bounded and only improve.

Ranking half (model checking): specs/base/SolutionSet.tla transcribes PlannerSolution::operator<,
TLC proves it a strict weak order that coincides with the documented ranking on homogeneous
sets and explores every add/clear history; every transition of the exported graph plus random
walks are replayed on the real ProblemDefinition (with objective / without / flag overload), and
recorded random histories are validated by TLC (SolutionSetTrace).

Planner half (trace validation): continued solves of every optimizing planner under the shipped
objectives are recorded with independently recomputed costs and judged by PlannerCostTrace.
"""
import json
import os
import random
import shutil
import subprocess
import vlib
import c01
import planrun
from vlib import Check, run_tlc, run_cmd, build_harness, validate_trace, FrameworkError, WORK, log, Graph

PID = "C04"
F_MT, F_OPT, F_SLOW = 1, 2, 256
# planners that propagate cost changes lazily (RRT#, RRTX): stored cost may exceed the true cost
DEFERRED = {"RRTsharp", "RRTXstatic"}
# objectives: path length (plain / with threshold), state-cost integral, weighted multi-objective,
# mechanical work, max-min clearance.
OBJECTIVES = ["length", "length-thr", "clearint", "combo", "mechwork", "maxminclear"]
MAPS = [(3, 3, [4], 0, 8), (3, 3, [1, 4], 0, 2), (3, 3, [], 0, 8), (4, 4, [5, 6, 9], 0, 15), (3, 3, [3, 4], 0, 6),
        (4, 4, [1, 5, 9, 7, 11], 0, 3)]


def _summary(out, tag="SUMMARY"):
    for line in out.splitlines():
        if line.startswith(tag + " "):
            return json.loads(line[len(tag) + 1:])
    return None


def ranking(ck, tier):
    res = run_tlc("base/SolutionSet", cfg="SolutionSet_mc.cfg", workers=min(4, vlib.NCPU), timeout=1200)
    ck.tlc(res, "solutionset-mc")
    if res.violated:
        # the transcription of the comparator breaks the documented ranking: design-level finding
        ck.violation("ranking-model:" + res.violated, "PlannerSolution::operator< (as transcribed) violates %s" % res.violated,
                     ck.replay_file("ranking-model.txt", res.out[-3000:]))
    edges = []
    res = run_tlc("base/SolutionSet", cfg="SolutionSet_dump.cfg", workers=1, timeout=1200, json_sink=edges.append)
    if res.error:
        raise FrameworkError(res.error)
    g = Graph(edges)
    g.check_connected()
    gp = g.write(os.path.join(WORK, "c04-solset.ndjson"))
    binary = build_harness("solset", needs_lib=True, san="asan")
    rc, out, err = run_cmd([binary, "replay", gp, "2000" if tier == "quick" else "40000"], timeout=3000)
    summ = _summary(out)
    if summ is None:
        if "CRASH" in out or rc in (70, 77, 78):
            ck.violation("ranking-replay:crash", "ProblemDefinition crashed while replaying solution-set scenarios: " + (err or out)[-500:], gp)
            return
        raise FrameworkError("solset replay gave no summary (rc=%s): %s" % (rc, (out + err)[-1500:]))
    ck.add("traces_validated_against_impl", summ["scenarios"])
    ck.set("ranking_graph", {"states": summ["states"], "edges": summ["edges"], "scenarios": summ["scenarios"],
                             "skipped_without_objective": summ["skipped"]})
    if summ["failures"]:
        first = _summary(out, "FAIL")
        rp = ck.replay_file("ranking-scenario.json", json.dumps(first, indent=1))
        ck.violation("ranking-replay:" + first["why"].split(" ")[0], "%d solution-set scenarios fail on the real ProblemDefinition; first: %s"
                     % (summ["failures"], first["why"]), rp)
    else:
        ck.sample({"kind": "solution-set scenario", "ops": [{"a": e["a"], "args": e["args"]} for e in g.edges[40:43]]})
    tp = os.path.join(WORK, "c04-sstrace.ndjson")
    rc, out, err = run_cmd([binary, "record", tp, "4000" if tier == "quick" else "40000"], timeout=900,
                           env={"VERIF_SEED": str(vlib.seed())})
    if rc != 0:
        raise FrameworkError("solset record failed: " + (out + err)[-800:])
    acc, prefix, res = validate_trace("base/SolutionSetTrace", tp, timeout=3000)
    if acc:
        ck.add("traces_validated_against_impl", 2)
    else:
        rp = ck.replay_file("ranking-trace.ndjson")
        shutil.copyfile(tp, rp)
        ev = vlib.read_ndjson(tp)[prefix]
        ck.violation("ranking-trace:" + ev.get("e", "?"), "recorded solution-set history rejected at event %d: %s"
                     % (prefix + 1, json.dumps(ev)[:300]), rp)


def planner_costs(ck, tier):
    binary = build_harness("planners", needs_lib=True)
    rng = random.Random(vlib.seed() * 31337 + 5)
    planners = [p for p in json.loads(subprocess.run([binary, "list"], capture_output=True, text=True).stdout)
                if p["flags"] & F_OPT]
    jobs, jid = [], 0
    reps = 1 if tier == "quick" else 6
    for p in planners:
        mt, slow = p["flags"] & F_MT, p["flags"] & F_SLOW
        for ob in OBJECTIVES:
            for _ in range(reps):
                W, H, obst, s, g = rng.choice(MAPS)
                jid += 1
                if mt or slow:
                    budgets = [3000, 3000, 3000]
                else:
                    budgets = [rng.choice([150, 300, 600]), rng.choice([300, 600]), rng.choice([600, 1200]), 300]
                job = {"id": jid, "planner": p["name"], "objective": ob, "W": W, "H": H, "obst": obst, "start": s,
                       "goal": g, "seed": rng.randrange(1, 1 << 30), "thr": rng.choice([0.0, 0.0, 0.4]),
                       "budgets": budgets, "exactCost": p["name"] not in DEFERRED,
                       "params": c01.pick_params(p, rng, prob=0.5)}
                if rng.random() < 0.5:
                    # phase 1: a short hop; phase 2 (after clearQuery on the same instance): the long query
                    free = [c for c in range(W * H) if c not in obst]
                    near = [c for c in free if c != s and abs(c % W - s % W) <= 1 and abs(c // W - s // W) <= 1]
                    if near:
                        job["requery"] = {"start": s, "goal": g, "budgets": budgets[:3]}
                        job["goal"] = rng.choice(near)
                jobs.append(job)
    rng.shuffle(jobs)
    jp = os.path.join(WORK, "c04-jobs.ndjson")
    vlib.write_ndjson(jp, jobs)
    trace, total, notes = planrun.run_sharded(binary, "c04", jp, os.path.join(WORK, "c04-trace"))
    for n in notes:
        log("[C04] " + n)
    rows = vlib.read_ndjson(trace)
    bad = []
    acc, prefix, res = validate_trace("base/PlannerCostTrace", trace, timeout=3000, json_sink=bad.append)
    if not acc:
        raise FrameworkError("cost trace not consumed (event %s): %s" % (prefix + 1, res.out[-1200:]))
    owner, cur = [], None
    for r in rows:
        if r["e"] == "Reset":
            cur = r
        owner.append(cur)
    jobs_by_id = {j["id"]: j for j in jobs}
    seen = set()
    for b in bad:
        if b["line"] in seen:
            continue
        seen.add(b["line"])
        r, o = rows[b["line"] - 1], owner[b["line"] - 1] or {}
        pl, ob = r.get("planner", o.get("planner")), r.get("objective", o.get("objective"))
        for clause in sorted(b["failed"]):
            rp = ck.replay_file("cost-%s-%s-%s.json" % (pl, ob, clause),
                                json.dumps({"job": jobs_by_id.get(o.get("job", r.get("job"))), "event": r}, indent=1))
            ck.violation("%s:%s:%s" % (pl, ob, clause),
                         "optimizing planner %s under objective %s: clause '%s' fails (status %s, solutions %s)" %
                         (pl, ob, clause, r.get("status"),
                          [(s["approx"], s["stored"], s["true"], s["optimized"], s["satisfies"]) for s in r.get("sols", [])][:3]), rp)
    solves = [r for r in rows if r["e"] == "CostSolve"]
    ck.add("traces_validated_against_impl", sum(1 for r in rows if r["e"] == "Reset"))
    ck.set("cost_solve_reports", len(solves))
    ck.set("solutions_judged", sum(len(r["sols"]) for r in solves))
    per = {}
    for r in solves:
        k = r["planner"]
        per[k] = per.get(k, 0) + sum(1 for s in r["sols"] if s["hasObj"] and s["sameObj"])
    ck.set("cost_carrying_solutions_per_planner", per)
    ck.set("optimized_flag_true", sum(1 for r in solves for s in r["sols"] if s["optimized"]))
    if len([k for k, v in per.items() if v > 0]) < 12 or ck.cov["optimized_flag_true"] < 5:
        raise FrameworkError("vacuity gate: cost-carrying solutions from only %d planners / %d optimized flags"
                             % (len([k for k, v in per.items() if v > 0]), ck.cov["optimized_flag_true"]))
    ex = next((r for r in solves if r["sols"]), None)
    if ex:
        ck.sample({"kind": "cost report", "planner": ex["planner"], "objective": ex["objective"], "status": ex["status"],
                   "lb": ex["lb"], "sols": ex["sols"][:2]})


def run(tier):
    ck = Check(PID, tier, "model_checking")
    ck.assumptions += [
        "ranking is judged on homogeneous solution sets (all solutions share one objective, or none has one)",
        "costs compared with 4e-5 absolute + 1e-5 relative tolerance; lower bound: straight-line distance minus goal "
        "threshold for path length, the objective's own motionCostHeuristic otherwise",
        "planners with deferred cost propagation (RRT#, RRTX) may store a cost worse than the true one",
        "objectives: path length (with/without threshold), state-cost integral, weighted multi-objective, mechanical work, max-min clearance",
    ]
    ranking(ck, tier)
    planner_costs(ck, tier)
    ck.set("exhaustive", True)
    return ck.finish()


def replay(path):
    if path.endswith(".ndjson"):
        acc, prefix, res = validate_trace("base/SolutionSetTrace", path)
        print("accepted" if acc else "REJECTED at event %d" % (prefix + 1))
        return 0 if acc else 1
    d = json.load(open(path))
    if "job" not in d or not d["job"]:
        print(json.dumps(d, indent=1)[:2000])
        return 1
    binary = build_harness("planners", needs_lib=True)
    wd = vlib.ensure_dir(os.path.join(WORK, "replay", PID))
    jp = os.path.join(wd, "job.ndjson")
    vlib.write_ndjson(jp, [d["job"]])
    out = os.path.join(wd, "rerun.ndjson")
    planrun.run_shard(binary, "c04", jp, out, 0, 1)
    bad = []
    validate_trace("base/PlannerCostTrace", out, json_sink=bad.append)
    fails = sorted({c for b in bad for c in b["failed"]})
    print("re-run:", "REJECTED %s" % fails if fails else "accepted")
    return 1 if fails else 0
