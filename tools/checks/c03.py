"""C03 - interrupting, resuming or clearing a planner never corrupts its result.

TLC model-checks the life-cycle protocol (specs/base/PlannerLifecycle.tla: NoStaleQuery) and
exports its state graph; histories are walks through that graph (random + the k-sweep
solve(k); solve(k2) for every k), executed on every registered planner with a termination
condition that fires at the k-th evaluation and an allocation-counting state space.  The
recorded executions are replayed through the same TLA+ actions and every report is judged by
PlannerLifecycleTrace (status truthful, nothing half-built, bounded return, no stale query
after clear, no leak / double free, no crash or hang).
"""
import json
import os
import random
import subprocess
import vlib
import c01
import planrun
from vlib import Check, run_tlc, build_harness, validate_trace, FrameworkError, WORK, log, Graph

PID = "C03"
KNAMES = ["k0", "k1", "k2", "k3", "k5", "k8", "k13", "k21", "k34", "k60", "k150", "k400", "inf"]
F_MT, F_SLOW = 1, 256

MAPS = [  # (W, H, obstacle cells): open, wall with a gap, two blocks, goal pocket, 4x4 zig-zag
    (3, 3, []), (3, 3, [4]), (3, 3, [1, 4]), (3, 3, [3, 4]), (3, 3, [1, 7]), (3, 3, [0, 4, 8]),
    (4, 4, [1, 5, 9, 6, 10, 14][:3] + [7, 11]), (4, 4, [5, 6, 9]), (3, 3, [1, 3, 4]),  # last: cell 0 enclosed
]


def lifecycle_graph(ck):
    res = run_tlc("base/PlannerLifecycle", cfg="PlannerLifecycle_mc.cfg", workers=4, timeout=900)
    ck.tlc(res, "lifecycle-mc")
    if res.violated:
        raise FrameworkError("life-cycle protocol model violates %s" % res.violated)
    edges = []
    res = run_tlc("base/PlannerLifecycle", cfg="PlannerLifecycle_dump.cfg", workers=1, timeout=900,
                  json_sink=edges.append)
    if res.error:
        raise FrameworkError(res.error)
    g = Graph(edges)
    g.check_connected()
    out = {}
    for e in g.edges:
        out.setdefault(e["s"], []).append(e)
    return g, out


WEIGHT = {"Solve": 8, "Clear": 2, "ClearQuery": 2, "SetPdef": 3, "NewQuery": 3, "GetPlannerData": 2, "Setup": 0, "Destroy": 1}


def random_history(out, rng, maxlen, kchoices):
    s, ops = 0, []
    # start by binding a definition most of the time (otherwise Solve is not enabled anyway)
    for _ in range(maxlen):
        es = out.get(s, [])
        if not es:
            break
        es = [x for x in es if WEIGHT.get(x["a"], 1) > 0]
        e = rng.choices(es, weights=[WEIGHT.get(x["a"], 1) for x in es])[0]
        op = {"a": e["a"]}
        if e["a"] in ("SetPdef", "NewQuery"):
            op["p"] = e["args"]["p"]
        if e["a"] == "Solve":
            op["k"] = rng.choice(kchoices)
        ops.append(op)
        s = e["d"]
        # setup() is not in the property's alphabet; the usual explicit call right after binding the first definition
        if e["a"] == "SetPdef" and not any(o["a"] in ("Solve", "Setup") for o in ops) and rng.random() < 0.4:
            su = [x for x in out.get(s, []) if x["a"] == "Setup"]
            if su:
                ops.append({"a": "Setup"})
                s = su[0]["d"]
        if e["a"] == "Destroy":
            break
    if not ops or ops[-1]["a"] != "Destroy":
        ops.append({"a": "Destroy"})
    return ops


def sweep_history(k, k2):
    return [{"a": "SetPdef", "p": "A"}, {"a": "Solve", "k": "k%d" % k}, {"a": "GetPlannerData"},
            {"a": "Solve", "k": k2}, {"a": "GetPlannerData"}, {"a": "Destroy"}]


# ---- "clear() forgets the old query completely": the first query has a near and a far goal (or start), the planner
# solves it and keeps improving (pruning drops the far one), then clear() / a new definition, and the NEW query starts
# where the old far goal was and wants to go elsewhere - whatever the planner kept of the old query is now the
# nearest thing to reach
# The near goal needs a detour (an optimizing planner that finds the straight line stops improving and never prunes)
# and the far goal must be farther from the start than the detour is long.
FORGET = [  # (W, H, obst, first query, second query)
    (4, 4, [1], {"start": 0, "goal": 2, "xg": [15]}, {"start": 15, "goal": 12}),
    (4, 4, [4], {"start": 0, "goal": 8, "xg": [15]}, {"start": 15, "goal": 3}),
    (4, 4, [1], {"start": 0, "goal": 2, "xs": [15]}, {"start": 12, "goal": 15}),
    (3, 3, [1], {"start": 0, "goal": 2, "xg": [8]}, {"start": 8, "goal": 6}),
    (4, 4, [5, 6, 9], {"start": 0, "goal": 1, "xg": [15]}, {"start": 15, "goal": 3}),
]


def forget_histories(rng, mt, slow):
    k1 = "k400" if (mt or slow) else rng.choice(["k300", "k400"])
    k2 = "k400" if (mt or slow) else rng.choice(["k5", "k60", "k150", "inf"])
    first = [{"a": "SetPdef", "p": "A"}, {"a": "Solve", "k": "inf"}, {"a": "Solve", "k": k1}, {"a": "Solve", "k": k1}]
    if rng.random() < 0.5:   # switch to the other definition after clear()
        rest = [{"a": "Clear"}, {"a": "SetPdef", "p": "B"}, {"a": "Solve", "k": k2}]
    else:                    # new query on the same definition, then clear()
        rest = [{"a": "NewQuery", "p": "A"}, {"a": "Clear"}, {"a": "Solve", "k": k2}]
    return first + rest + [{"a": "GetPlannerData"}, {"a": "Destroy"}], rest[0]["a"] == "NewQuery"


# planners whose setProblemDefinition() override ends with clearQuery(): binding the definition that is bound already
# is one more spelling of ClearQuery (multi-query use: rewrite start and goal of the one definition, hand it over again)
REBIND_CLEARS = {"PRM", "PRMstar", "LazyPRM", "LazyPRMstar", "SPARS", "SPARStwo"}


def requery_history(rng, mt):
    k1 = "k400" if mt else rng.choice(["k150", "k400", "inf"])
    k2 = "k400" if mt else rng.choice(["k60", "k150", "k400", "inf"])
    return [{"a": "SetPdef", "p": "A"}, {"a": "Solve", "k": "inf"}, {"a": "NewQuery", "p": "A"},
            {"a": "ClearQuery", "via": "rebind"}, {"a": "Solve", "k": k2}, {"a": "NewQuery", "p": "A"},
            {"a": "ClearQuery", "via": rng.choice(["rebind", "call"])}, {"a": "Solve", "k": k1},
            {"a": "GetPlannerData"}, {"a": "Destroy"}]


def run(tier):
    ck = Check(PID, tier, "model_checking")
    ck.assumptions += [
        "documented protocol: after the bound definition's query changed (or another definition was bound while "
        "search data exist) clear() or clearQuery() precedes the next solve(); solve() is not called concurrently",
        "termination condition is monotone: false for the first k evaluations, then true",
        "2-D grid worlds, allocation-counting R^2 space; bound B on evaluations after the k-th: 24 (single-threaded), 400 (multi-threaded planners)",
    ]
    binary = build_harness("planners", needs_lib=True)
    rng = random.Random(vlib.seed() * 104729 + 3)
    planners = json.loads(subprocess.run([binary, "list"], capture_output=True, text=True).stdout)
    g, out = lifecycle_graph(ck)
    acts = {}
    for e in g.edges:
        acts[e["a"]] = acts.get(e["a"], 0) + 1
    need = set(WEIGHT)
    if need - set(acts):
        raise FrameworkError("vacuity gate: life-cycle actions never enabled in the model: %s" % sorted(need - set(acts)))
    ck.set("lifecycle_graph", {"states": len(g.ids), "edges": len(g.edges), "edges_per_action": acts})
    if tier == "quick":
        n_hist, maxlen, sweep_ks, sweep_k2 = 10, 8, list(range(0, 22)) + [25, 29, 34, 42, 55], ["k60"]
    else:
        n_hist, maxlen, sweep_ks, sweep_k2 = 120, 10, list(range(0, 140)) + [150, 200, 250, 400], ["k3", "k150", "inf"]
    jobs = []
    jid = 0
    for p in planners:
        mt = bool(p["flags"] & F_MT)
        slow = bool(p["flags"] & F_SLOW)
        kch = KNAMES if not (mt or slow) else ["k0", "k1", "k5", "k400", "inf", "inf"]
        hs = [random_history(out, rng, maxlen, kch) for _ in range(n_hist if not slow else max(3, n_hist // 3))]
        if not mt:  # the k-sweep needs a schedule-independent evaluation count
            for k in sweep_ks:   # small k are cheap for every planner (batch planners are interrupted while sampling)
                hs.append(sweep_history(k, rng.choice(sweep_k2)))
        has_range = any(q["name"] == "range" for q in p.get("params", []))
        if p["name"] in REBIND_CLEARS:
            for h in hs:
                for op in h:
                    if op["a"] == "ClearQuery" and rng.random() < 0.5:
                        op["via"] = "rebind"
            hs += [requery_history(rng, mt) for _ in range(3 if tier == "quick" else 12)]
        for h in hs:
            W, H, obst = rng.choice(MAPS)
            jid += 1
            jobs.append({"id": jid, "planner": p["name"], "W": W, "H": H, "obst": sorted(set(obst)),
                         "seed": rng.randrange(1, 1 << 30), "thr": rng.choice([0.0, 0.0, 0.5]), "ops": h,
                         "params": c01.pick_params(p, rng, prob=0.6)})
            # short motions (a fraction of a cell): trees of many small steps, connect / extend loops that advance
            # several times before an obstacle stops them - an interrupted solve then holds much more half-done work
            if has_range and rng.random() < 0.4:
                jobs[-1]["params"]["range"] = rng.choice(["0.15", "0.3"])
    nforget = 0
    for p in planners:
        mt, slow = bool(p["flags"] & F_MT), bool(p["flags"] & F_SLOW)
        for W, H, obst, q1, q2 in (FORGET[:2] + rng.sample(FORGET[2:], 1) if tier == "quick" else FORGET * 3):
            h, same_def = forget_histories(rng, mt, slow)
            jid += 1
            nforget += 1
            # queries are consumed in order: A, B at the start, then one per NewQuery
            queries = [q1, q2, q2] if same_def else [q1, q2]
            jobs.append({"id": jid, "planner": p["name"], "W": W, "H": H, "obst": obst, "seed": rng.randrange(1, 1 << 30),
                         "thr": 0.0, "ops": h, "queries": queries, "params": c01.pick_params(p, rng, prob=0.8)})
    ck.set("forget_histories", nforget)
    rng.shuffle(jobs)
    jpath = os.path.join(WORK, "c03-jobs.ndjson")
    vlib.write_ndjson(jpath, jobs)
    trace, total, notes = planrun.run_sharded(binary, "c03", jpath, os.path.join(WORK, "c03-trace"))
    for n in notes:
        log("[C03] " + n)
    rows = vlib.read_ndjson(trace)
    bad = []
    acc, prefix, res = validate_trace("base/PlannerLifecycleTrace", trace, timeout=3000, json_sink=bad.append)
    if not acc:
        raise FrameworkError("life-cycle trace not consumed (event %s: %s): %s" %
                             (prefix + 1, json.dumps(rows[prefix])[:300] if prefix < len(rows) else "?", res.out[-1200:]))
    # attribute each judged line to its execution (planner of the preceding Reset)
    owner, cur = [], None
    for r in rows:
        if r["e"] == "Reset":
            cur = r
        owner.append(cur)
    jobs_by_id = {j["id"]: j for j in jobs}
    seen = set()
    for b in bad:
        if b["line"] in seen:
            continue
        seen.add(b["line"])
        r, o = rows[b["line"] - 1], owner[b["line"] - 1]
        if r["e"] in ("Crash", "Hang") and "planner" in r:   # reported by the parent process: names its own run
            pl, job = r["planner"], jobs_by_id.get(r.get("job"))
        else:
            pl = (o or r).get("planner", r.get("planner", "?"))
            job = jobs_by_id.get((o or r).get("job"))
        for clause in sorted(b["failed"]):
            rp = ck.replay_file("job-%s-%s.json" % (pl, clause), json.dumps({"job": job, "event": r}, indent=1))
            ck.violation("%s:%s" % (pl, clause),
                         "planner %s, history %s: event %s fails clause '%s' (status %s, k=%s, evals=%s)" %
                         (pl, [op["a"] + (":" + op.get("k", op.get("p", "")) if op.get("k") or op.get("p") else "")
                               for op in (job or {}).get("ops", [])], r["e"], clause, r.get("status"), r.get("k"), r.get("evals")), rp)
    execs = sum(1 for r in rows if r["e"] == "Reset")
    solves = [r for r in rows if r["e"] == "Solve"]
    ck.add("traces_validated_against_impl", execs)
    ck.set("events", len(rows))
    ck.set("solve_calls", len(solves))
    ck.set("resumed_or_interrupted_solves", sum(1 for r in solves if r["nBefore"] > 0 or r["kval"] >= 0))
    over = {}
    for r in solves:
        if r["kval"] >= 0:
            over[r["planner"]] = max(over.get(r["planner"], 0), r["evals"] - r["kval"])
    ck.set("max_evaluations_after_k", over)
    st = {}
    for r in solves:
        st[r["status"]] = st.get(r["status"], 0) + 1
    ck.set("status_counts", st)
    ck.set("destroy_reports", sum(1 for r in rows if r["e"] == "Destroy"))
    if len(over) < 30 or st.get("EXACT", 0) < 30 or st.get("TIMEOUT", 0) < 30:
        raise FrameworkError("vacuity gate: %d planners interrupted, statuses %s" % (len(over), st))
    ex = [r for r in rows[:40] if r["e"] in ("SetPdef", "Solve", "Clear", "Destroy")][:6]
    ck.sample({"kind": "recorded life cycle excerpt",
               "events": [{k: v for k, v in r.items() if k in ("e", "p", "k", "status", "evals", "nBefore", "nAfter", "live")} for r in ex]})
    ck.sample({"kind": "history", "ops": jobs[0]["ops"], "planner": jobs[0]["planner"]})
    # control planners: same life-cycle model, solutions judged by the control path contract
    import c03_control
    c03_control.control_lifecycle(ck, tier, graph=(g, out))
    # the input-state iterator behind resumed solves, and the lazy goal sampling thread it waits for
    import c03_inputstates
    c03_inputstates.input_states(ck, tier)
    return ck.finish()


def replay(path):
    if os.path.basename(path).startswith(("inputstates-", "goallazy-")):
        import c03_inputstates
        return c03_inputstates.replay(path)
    if os.path.basename(path).startswith("ctrl-"):
        import c03_control
        return c03_control.replay_control(path)
    d = json.load(open(path))
    job = d["job"]
    binary = build_harness("planners", needs_lib=True)
    wd = vlib.ensure_dir(os.path.join(WORK, "replay", PID))
    jp = os.path.join(wd, "job.ndjson")
    vlib.write_ndjson(jp, [job])
    out = os.path.join(wd, "rerun.ndjson")
    planrun.run_shard(binary, "c03", jp, out, 0, 1)
    bad = []
    acc, prefix, res = validate_trace("base/PlannerLifecycleTrace", out, json_sink=bad.append)
    fails = sorted({c for b in bad for c in b["failed"]})
    print("re-run:", "REJECTED %s" % fails if fails else "accepted")
    return 1 if fails else 0
