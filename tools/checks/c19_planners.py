"""C19, second sentence: the inside of the multi-threaded planners.

(1) Protocol models at the code's atomicity, checked by TLC (safety + termination under fairness):
    conc/PSBL.tla (pSBL::threadSolve), conc/PRMTwoThread.tla (PRM::solve), conc/PRRT.tla (in c19.py),
    conc/CForestShare.tla, conc/APSShare.tla, conc/GoalStatesSample.tla.  Each model has the variant the code is
    MEASURED to implement (read off the recorded hook traces: e.g. loopLock_ taken shared => "sharedMutex") and that
    variant must satisfy every invariant; a violated invariant is a finding `model:<model>:<invariant>` whose replay
    file is the TLC counterexample.  The other variant is run as a vacuity gate of the invariants.
(2) Binding: harness/concplan.cpp runs the real planners with the hooks on; TLC validates every recorded execution
    against conc/SharedMemTrace.tla (data-race rule over fork/join/lock happens-before + measured locksets; mutex
    rules), the pSBL executions also against conc/PSBLTrace.tla (what the loopLock_ scheme is for), and every run's
    result against base/PlannerContractTrace.tla.
"""
import concurrent.futures
import json
import os
import random
import re
import vlib
from vlib import run_tlc, run_cmd, validate_trace, FrameworkError, WORK, log

# sites every run family must reach (vacuity): resource -> sites
EXPECT_SITES = {
    "pRRT.sol.solution": {"loopCond", "publish", "report"},
    "pRRT.sol.approxdif": {"approxCheck", "approxRecheck", "approxUpdate", "publish"},
    "pRRT.nn": {"nearest", "add"},
    "GoalStates.samplePosition": {"sampleGoal"},
    "pSBL.sol.found": {"loopCond", "publishCheck", "publish", "report"},
    "pSBL.removeList": {"check", "push", "clear"},
    "pSBL.tree": {"addMotion", "selectMotion", "checkSolution", "removeMotion"},
    "pSBL.motion.children": {"addChild", "addConnect", "removeFromParent", "free"},
    "pSBL.motion.valid": {"isPathValid", "free"},
    "pSBL.motion.parent": {"isPathValid", "removeMotion", "free"},
    "PRM.graph": {"addMilestone", "constructSolution", "startGoalPairValid", "expandPdf", "expandBounce"},
    "PRM.disjointSets": {"addMilestone", "sameComponent"},
    "PRM.addedNewSolution": {"reset", "checkStore", "query"},
    "PRM.bestCost": {"maybeConstructSolution", "report"},
    "CForest.bestCost": {"solveInit", "newSolutionFoundCheck", "newSolutionFoundUpdate"},
    "CForest.samplers": {"addSampler", "share"},
    "CForestStateSampler.statesToSample": {"set", "pop"},
    "APS.bestCost": {"solveInit", "satisfiedCheck", "addPathCheck", "addPathUpdate"},
}
# ... where the site depends on the variant of the code: one of the alternatives
EXPECT_ONE_OF = [
    {("pSBL.connectionPoint", "checkSolution"), ("pSBL.connectionPoint", "publish")},
    {("PRM.bestCost", "constructRoadmap"), ("PRM.bestCost", "solve")},
    {("CForestStateSampler.statesToSample", "emptyCheck"), ("CForestStateSampler.statesAvailable", "emptyCheck")},
]
# resources that must have been touched by at least two threads in some run
SHARED = ["pRRT.sol.solution", "pRRT.sol.approxdif", "pRRT.nn", "GoalStates.samplePosition", "pSBL.sol.found",
          "pSBL.removeList", "pSBL.tree", "pSBL.motion.children", "PRM.graph", "PRM.disjointSets",
          "PRM.addedNewSolution", "PRM.bestCost", "CForest.bestCost", "CForest.samplers",
          "CForestStateSampler.statesToSample", "APS.bestCost", "SolutionSet.solutions"]
PSBL_PROTOCOL_SEEN = {"enter", "leave", "removal", "tryFail"}

MAPS = [(3, 3, [4], 0, 8), (3, 3, [1, 4], 0, 2), (3, 3, [3, 4], 0, 6), (4, 3, [5, 6], 0, 11), (3, 3, [], 0, 8)]


def jobs(tier):
    """The scenario list (seeded).  quick: ~30 runs; thorough: ~10x."""
    rng = random.Random(vlib.seed() * 7919 + 19)
    reps = 1 if tier == "quick" else 8
    out = []

    def add(planner, variant, **kw):
        W, H, obst, s, g = kw.pop("map", None) or rng.choice(MAPS[:4])
        j = {"planner": planner, "variant": variant, "W": W, "H": H, "obst": obst, "start": s, "goal": g,
             "seed": rng.randrange(1, 1 << 30), "perturb": 2, "threads": rng.choice([2, 3]), "space": "R2", "thr": "cell"}
        j.update(kw)
        out.append(j)

    for _ in range(reps):
        # pRRT: single goal state, several goal states (shared sampling position), a goal region
        # (the worker that publishes the solution is held back right after the write, inside sol->lock; with several goal
        #  states the third call of sampleGoal() is held back right before it touches the shared position)
        for q, gb in (("single", 0.05), ("goalstates", 0.5), ("goalstates", 0.5), ("region", 0.05), ("single", 0.05),
                      ("goalstates", 0.3)):
            add("pRRT", q, query=q, goalBias=gb, range=rng.choice(["tiny", "small"]), budget=rng.choice([300, 500, 800]),
                map=MAPS[0] if q != "single" else None,
                stall=["pRRT.publish#1"] + (["GoalStates.sampleGoal#3"] if q == "goalstates" else []))
        # pSBL: plain runs, a valid-state sampler whose sampleNear() fails now and then, a second solve() after it
        # (long motions - range "huge" - are often invalid: the lazy validation queues them and the removal phase runs)
        # and a wall between start and goal keeps the planner from finishing early); in the open maps the first worker
        # that has found a solution is held back before it publishes it, so that a second one finds one as well
        add("pSBL", "removal", range="huge", budget=300, threads=3, map=(3, 3, [1, 4, 7], 0, 2))
        add("pSBL", "removal", range="huge", budget=250, threads=3, map=(4, 3, [1, 5, 9], 0, 3))
        # (every 7th tree insertion is held back inside its iteration: the others then find loopLock_ taken - try_lock fails)
        add("pSBL", "removal-contended", range="huge", budget=400, threads=3, map=(3, 3, [1, 4, 7], 0, 2),
            stall=["pSBL.addMotion%7"])
        add("pSBL", "plain", range="small", budget=600, map=(3, 3, [], 0, 1), threads=3, stall=["pSBL.connectionPoint#1", "pSBL.publish#1"])
        add("pSBL", "plain", range="default", budget=400, map=(2, 1, [], 0, 1), stall=["pSBL.connectionPoint#1", "pSBL.publish#1"])
        add("pSBL", "plain", range="small", budget=500, map=(3, 3, [], 0, 1), threads=2, stall=["pSBL.connectionPoint#1", "pSBL.publish#1"])
        add("pSBL", "plain", range="small", budget=500, map=(2, 2, [], 0, 1), threads=3, stall=["pSBL.connectionPoint#1", "pSBL.publish#1"])
        add("pSBL", "flaky", range="small", budget=200, flakyEvery=rng.choice([5, 7, 11]))
        add("pSBL", "flaky", range="tiny", budget=160, flakyEvery=rng.choice([5, 7, 11]), threads=2)
        add("pSBL", "flaky-resolve", range="small", budget=120, flakyEvery=5, solves=2, threads=2)
        # PRM / PRMstar: start and goal see each other (the solution thread reports at once) and not.  The planning thread
        # is held back before it resets bestCost_ / the solution thread before its unlocked pair check (3-6 ms).
        for _k in range(3):
            add("PRM", "visible-reset", map=MAPS[4], budget=rng.choice([200, 600]), stall=["PRM.bestCostReset"])
        for _k in range(2):
            add("PRM", "visible-pair", map=MAPS[4], budget=rng.choice([300, 600]), stall=["PRM.startGoalPairValid"])
        add("PRM", "plain", budget=rng.choice([600, 1500]), stall=["PRM.startGoalPairValid"])
        # the expansion step starts after 0.4 s of growing (the planner's own clock): every milestone insertion is held
        # back (60 ms, inside graphMutex_), a wall keeps the query unsolved
        add("PRM", "expand", budget=80, map=(3, 3, [1, 4, 7], 0, 2), stall=["PRM.addMilestone"], perturb=1)
        add("PRM", "goalstates", query="goalstates", map=MAPS[0], budget=800, stall=["PRM.startGoalPairValid"])
        add("PRMstar", "visible-reset", map=MAPS[4], budget=300, stall=["PRM.bestCostReset"])
        add("PRMstar", "visible-pair", map=MAPS[4], budget=300, stall=["PRM.startGoalPairValid"])
        add("PRMstar", "plain", budget=400, stall=["PRM.startGoalPairValid"])
        # CForest: with and without search focusing (states are only shared between the trees without it); the second
        # tree to register its sampler is held back, so that the first one shares while samplers_ still grows
        for f, late in ((0, True), (0, True), (0, False), (0, False), (1, False)):
            add("CForest", "focus%d%s" % (f, "-late" if late else ""), focus=f, budget=rng.choice([350, 500]),
                stall=["CForest.addSampler#2"] if late else [],
                query=rng.choice(["single", "goalstates"]) if f == 0 else "single", map=MAPS[0])
        # AnytimePathShortening: its own thread polls the termination condition in a tight loop -> large budget, capped
        # log; it is held back before it initialises bestCost_ (its workers are running by then)
        for _k in range(2):
            add("AnytimePathShortening", "late-init", budget=rng.choice([5000, 8000]), cap=1200, threads=2,
                stall=["APS.bestCostInit"])
        for _k in range(2):
            add("AnytimePathShortening", "plain", budget=rng.choice([6000, 9000]), cap=1200, threads=2)
    return out


def record(binary, js, outdir, timeout=40):
    """Run every job in its own process (a hang or crash of one run becomes an event of that run)."""
    vlib.ensure_dir(outdir)

    def one(i):
        j = js[i]
        ev = os.path.join(outdir, "run%03d.ev.ndjson" % i)
        sv = os.path.join(outdir, "run%03d.solve.ndjson" % i)
        for f in (ev, sv):
            if os.path.exists(f):
                os.remove(f)
        to = 12 if j.get("solves", 1) > 1 else timeout     # the second solve() either returns within milliseconds or never
        rc, out, err = run_cmd([binary, "run", ev, sv, json.dumps(j)], timeout=to)
        if rc == 127 or "file too short" in (err or ""):
            rc, out, err = run_cmd([binary, "run", ev, sv, json.dumps(j)], timeout=timeout)
        scen = "planner:%s:%s" % (j["planner"], j["variant"])
        if rc != 0:
            with open(ev, "a") as f:
                f.write(json.dumps({"e": "Scenario", "name": scen + ":aborted"}) + "\n")
                f.write(json.dumps({"e": "Hang" if rc == -999 else "Crash", "what": "rc=%s %s" % (rc, (err or out)[-200:])}) + "\n")
        return ev, sv, rc

    with concurrent.futures.ThreadPoolExecutor(max_workers=max(2, vlib.NCPU // 2)) as ex:
        return list(ex.map(one, range(len(js))))


def planner_hooks_present():
    """Is the guarded hook commit for the planners in the tree under test?"""
    try:
        h = open(os.path.join(vlib.REPO, "src/ompl/util/VerifHooks.h")).read()
        p = open(os.path.join(vlib.REPO, "src/ompl/geometric/planners/rrt/src/pRRT.cpp")).read()
        q = open(os.path.join(vlib.REPO, "src/ompl/geometric/planners/sbl/src/pSBL.cpp")).read()
    except OSError:
        return False
    return "ACQUIRE_SHARED" in h and "emitLock" in h and "pRRT.nnLock" in p and "pSBL.loopLock" in q


def gate(ck, msg):
    """Vacuity gate.  A run that has already produced a verdict against the tree under test is red anyway: its gates
    are recorded instead of raised (a changed tree may well take other paths); a green run must meet every gate."""
    if ck.violations:
        ck.cov.setdefault("vacuity_gates_not_met_in_red_run", []).append(msg)
        log("[c19] vacuity gate not met (recorded, the run is red already): " + msg)
        return
    raise FrameworkError("vacuity gate: " + msg)


def validate_announced(module, trace_path, timeout=2400, heap="4g"):
    """Trace validation with the *Announce.cfg of a trace spec: the spec prints {"accepted": NLog} after the last line
    (no violated invariant, hence no behaviour print-out: 4x faster on long traces).  Returns (accepted, reports, res)."""
    out = []
    res = run_tlc(module, cfg=module.split("/")[-1] + "Announce.cfg", workers=1, timeout=timeout, env={"TRACE": trace_path},
                  json_sink=out.append, heap=heap)
    if res.error:
        raise FrameworkError(res.error)
    n = sum(1 for _ in open(trace_path))
    acc = [b for b in out if "accepted" in b]
    ok = bool(acc) and acc[0]["accepted"] == n and res.violated is None
    return ok, [b for b in out if "accepted" not in b], res, (acc[0] if acc else {})


def race_key(b):
    """Stable keys of one report line of SharedMemTrace.  A data race is named after its resource and the site(s) that
    owned no mutex at all (the unprotected side); after both sites when both were unprotected or both owned (different)
    mutexes."""
    keys = []
    for clause in sorted(b["failed"]):
        if clause == "dataRace" and b.get("sites"):
            for sa, la, sb, lb in b["sites"]:
                if not (sa or sb):
                    keys.append("dataRace:%s" % b["what"])      # surface resources carry no site labels
                elif la != lb:
                    keys.append("dataRace:%s:%s" % (b["what"], sb if la else sa))
                else:
                    keys.append("dataRace:%s:%s" % (b["what"], "/".join(sorted({sa, sb}))))
        else:
            keys.append("%s:%s" % (clause, b["what"]))
    return sorted(set(keys))


def _project_psbl(rows):
    keep = []
    for r in rows:
        e = r["e"]
        if e in ("Scenario", "End", "TryFail") or \
           (e in ("Acquire", "Release", "AcquireShared", "ReleaseShared") and r.get("name") == "pSBL.loopLock") or \
           (e == "Release" and r.get("name") == "pSBL.loopLockCounter") or \
           (e == "Access" and (r["res"] == "pSBL.loopCounter" or (r["res"] == "pSBL.tree" and r.get("site") == "removeMotion"))):
            keep.append(r)
    return keep


def planner_traces(ck, tier, binary):
    """Record, validate, judge.  Returns measured features of the code (for the model variants)."""
    import time
    t0 = time.time()
    js = jobs(tier)
    outdir = os.path.join(WORK, "c19-plan")
    runs = record(binary, js, outdir, timeout=40 if tier == "quick" else 60)
    log("[c19] %d planner scenarios recorded in %.1fs" % (len(js), time.time() - t0))
    # ---- distribute the runs over as many TLC processes as there are cores (every run is a self-contained Scenario);
    #      remember which run a line of a merged file belongs to
    nb = max(1, min(vlib.NCPU, len(js)))
    sized = []
    solve_rows = []
    for j, (ev, sv, rc) in zip(js, runs):
        if not os.path.exists(ev):
            raise FrameworkError("planner scenario produced no trace: %s" % json.dumps(j))
        lines = open(ev).read().splitlines(True)
        # pSBL traces are the slowest to validate (one clock per motion mutex)
        sized.append((len(lines) * (3 if j["planner"] == "pSBL" else 1), j, lines))
        if os.path.exists(sv):
            for r in vlib.read_ndjson(sv):
                r.setdefault("planner", j["planner"])      # a crash handler's row carries no job data
                r.setdefault("status", r.get("e"))
                solve_rows.append(r)
    sized.sort(key=lambda x: -x[0])
    bins = [[0, []] for _ in range(nb)]
    for w, j, lines in sized:
        b = min(bins, key=lambda x: x[0])
        b[0] += w
        b[1].append((j, lines))
    merged, index = {}, {}
    for k, (_w, lst) in enumerate(bins):
        if not lst:
            continue
        name = "bin%02d" % k
        mp = os.path.join(outdir, "merged-%s.ndjson" % name)
        idx = []
        with open(mp, "w") as m:
            for j, lines in lst:
                for line in lines:
                    m.write(line)
                    idx.append(j)
        merged[name], index[name] = mp, idx
    allrows = []
    feats = {"events": 0, "runs": len(js)}
    reports = {}

    def validate(name):
        acc, bad, res, _a = validate_announced("conc/SharedMemTrace", merged[name])
        if not acc:
            raise FrameworkError("planner trace %s not consumed (stopped at depth %s): %s" % (name, res.depth, res.out[-1200:]))
        return name, bad

    with concurrent.futures.ThreadPoolExecutor(max_workers=max(2, min(len(merged), vlib.NCPU))) as ex:
        for name, bad in ex.map(validate, sorted(merged)):
            reports[name] = bad
    log("[c19] planner traces validated by TLC (%d processes) at %.1fs" % (len(merged), time.time() - t0))
    seen = set()
    key_runs = {}
    alljobs = []
    # a run that had to be stopped by the watchdog is a verdict only together with a recorded cause in the same run
    # (a mutex still owned when its thread ended: the next solve() can never lock it); a bare timeout is a machinery
    # failure - no wall-clock verdicts
    causes = {}
    for name in sorted(reports):
        for b in reports[name]:
            jk = json.dumps(index[name][b["line"] - 1], sort_keys=True)
            causes.setdefault(jk, set()).update(b["failed"])
    for jk, cl in causes.items():
        if "Hang" in cl and not (cl & {"mutexOwnedAtThreadEnd", "unlockByNonOwner", "unlockOfUnlockedMutex", "dataRace"}):
            raise FrameworkError("planner scenario timed out without a recorded cause (loaded machine?): %s" % jk)
    for name in sorted(reports):
        rows = vlib.read_ndjson(merged[name])
        allrows += rows
        alljobs += index[name]
        for b in reports[name]:
            job = index[name][b["line"] - 1]
            row = rows[b["line"] - 1]
            for key in race_key(b):
                if key.startswith(("Hang:", "Crash:")):
                    key = "%s:%s:%s" % (key.split(":")[0], "planner:" + job["planner"], job["variant"])
                key_runs.setdefault(key, set()).add(json.dumps(job, sort_keys=True))
                if key in seen:
                    continue
                seen.add(key)
                rp = ck.replay_file("plan-%s.ndjson" % re.sub(r"[^A-Za-z0-9_.-]", "_", key))
                with open(rp, "w") as f:      # the offending run alone: replayable evidence
                    lo = b["line"] - 1
                    while lo > 0 and rows[lo]["e"] != "Scenario":
                        lo -= 1
                    hi = b["line"]
                    while hi < len(rows) and rows[hi]["e"] != "Scenario":
                        hi += 1
                    for r in rows[lo:hi]:
                        f.write(json.dumps(r) + "\n")
                ck.violation(key, "recorded execution of %s (%s): %s at event %d: %s; job %s" %
                             (job["planner"], job["variant"], key, b["line"], json.dumps(row)[:200], json.dumps(job)), rp)
    ck.set("planner_keys_runs", {k: len(v) for k, v in sorted(key_runs.items())})
    # ---- pSBL protocol trace
    if any(j["planner"] == "pSBL" for j in js):
        proj = _project_psbl([r for r, j in zip(allrows, alljobs) if j["planner"] == "pSBL"])
        pp = os.path.join(outdir, "psbl-protocol.ndjson")
        vlib.write_ndjson(pp, proj)
        acc, bad, res, ann = validate_announced("conc/PSBLTrace", pp, timeout=1200)
        if not acc:
            raise FrameworkError("pSBL protocol trace not consumed: " + res.out[-1000:])
        pseen = set(ann.get("seen", []))
        for b in bad:
            for clause in sorted(b["failed"]):
                key = "protocol:pSBL:" + clause
                if key in seen:
                    continue
                seen.add(key)
                rp = ck.replay_file("psbl-protocol-%s.ndjson" % clause)
                vlib.write_ndjson(rp, proj)
                ck.violation(key, "pSBL loopLock_ scheme, recorded execution %s: clause '%s' fails at event %d: %s" %
                             (b.get("scen"), clause, b["line"], json.dumps(proj[b["line"] - 1])[:200]), rp)
        ck.set("psbl_protocol_events_seen", sorted(pseen))
        need = PSBL_PROTOCOL_SEEN if "enter" in pseen else {"enterShared", "leaveShared", "removal", "tryFail"}
        if need - pseen:
            gate(ck, "pSBL protocol events never observed: %s" % sorted(need - pseen))
        feats["psbl_variant"] = "sharedMutex" if "enterShared" in pseen else "pinned"
        ck.add("traces_validated_against_impl", sum(1 for r in proj if r["e"] == "Scenario"))
    # ---- planner contract on every perturbed run
    sp = os.path.join(outdir, "solve-rows.ndjson")
    vlib.write_ndjson(sp, solve_rows)
    bad = []
    acc, prefix, res = validate_trace("base/PlannerContractTrace", sp, timeout=1200, json_sink=bad.append)
    if not acc:
        raise FrameworkError("planner report rows not consumed: " + res.out[-1000:])
    cseen = set()
    for b in bad:
        if b["line"] in cseen:
            continue
        cseen.add(b["line"])
        r = solve_rows[b["line"] - 1]
        for clause in sorted(b["failed"]):
            rp = ck.replay_file("mtp-%s-%s.json" % (r.get("planner"), clause), json.dumps(r, indent=1))
            ck.violation("mt:%s:%s" % (r.get("planner"), clause),
                         "hooked, perturbed run of %s (map %s, %s->%s, budget %s, seed %s): status %s, clause '%s' fails" %
                         (r.get("planner"), r.get("obst"), r.get("start"), r.get("goal"), r.get("budget"), r.get("seed"),
                          r.get("status"), clause), rp)
    st = {}
    for r in solve_rows:
        st.setdefault(r["planner"], {}).setdefault(r["status"], 0)
        st[r["planner"]][r["status"]] += 1
    ck.set("hooked_planner_status_counts", st)
    log("[c19] protocol + contract validation done at %.1fs" % (time.time() - t0))
    # ---- vacuity
    sites, threads_of = {}, {}
    scen = None
    nscen = 0
    for r in allrows:
        if r["e"] == "Scenario":
            nscen += 1
            scen = nscen
        elif r["e"] == "Access":
            sites.setdefault(r["res"], {}).setdefault(r.get("site", ""), 0)
            sites[r["res"]][r.get("site", "")] += 1
            threads_of.setdefault((r["res"], scen, r["obj"]), set()).add(r["t"])
    missing = {res: sorted(want - set(sites.get(res, {}))) for res, want in EXPECT_SITES.items() if want - set(sites.get(res, {}))}
    for alt in EXPECT_ONE_OF:
        if not any(site in sites.get(res, {}) for res, site in alt):
            missing["one of"] = sorted(alt)
    if missing:
        gate(ck, "hooked sites never reached (hooks missing, not built in, or scenarios too weak): %s" % missing)
    multi = {res for (res, _s, _o), ts in threads_of.items() if len(ts) >= 2}
    lonely = [r for r in SHARED if r not in multi]
    if lonely:
        gate(ck, "shared resources never touched by two threads in one run: %s" % lonely)
    feats["events"] = len(allrows)
    ck.set("planner_hook_events", len(allrows))
    ck.set("planner_sites", {k: v for k, v in sorted(sites.items()) if not k.startswith(("PTC.", "MotionValidator", "SeedGen", "Allocated"))})
    ck.add("traces_validated_against_impl", nscen + len(solve_rows))
    ck.sample({"kind": "planner hook events", "events": [r for r in allrows if r["e"] in ("Acquire", "Access", "Fork")][:4]})
    # ---- measured features of the code, for the model variants
    def locked(res, site):
        xs = [r for r in allrows if r["e"] == "Access" and r["res"] == res and r.get("site") == site]
        return bool(xs) and all(r["locks"] for r in xs)
    feats["prm_fix_pair"] = locked("PRM.graph", "startGoalPairValid")
    feats["prm_fix_expand"] = locked("PRM.graph", "expandPdf") and locked("PRM.graph", "expandBounce")
    # bestCost_ written by the planning thread while the solution thread exists?
    late = False
    forked = set()
    for r in allrows:
        if r["e"] == "Scenario":
            forked = set()
        elif r["e"] == "Fork":
            forked.add(r["t"])
        elif r["e"] == "Join":
            forked.discard(r["t"])
        elif r["e"] == "Access" and r["res"] == "PRM.bestCost" and r["w"] and r["t"] in forked:
            late = True
    feats["prm_fix_best"] = not late
    def during_fork(res):
        forked = set()
        for r in allrows:
            if r["e"] == "Scenario":
                forked = set()
            elif r["e"] == "Fork":
                forked.add(r["t"])
            elif r["e"] == "Join":
                forked.discard(r["t"])
            elif r["e"] == "Access" and r["res"] == res and r["w"] and r["t"] in forked and not r["locks"]:
                return True
        return False
    feats["aps_fix_init"] = not during_fork("APS.bestCost")
    feats["cforest_fix_iter"] = locked("CForest.samplers", "share")
    feats["goalstates_atomic"] = all(r["a"] for r in allrows if r["e"] == "Access" and r["res"] == "GoalStates.samplePosition")
    ck.set("measured_variants", {k: v for k, v in feats.items() if k not in ("events", "runs")})
    return feats


# --------------------------------------------------------------------------- protocol models

def _cfg(name, spec, constants, invariants=(), properties=()):
    d = vlib.ensure_dir(os.path.join(WORK, "cfg-c19"))
    p = os.path.join(d, name + ".cfg")
    with open(p, "w") as f:
        f.write("SPECIFICATION %s\nCONSTANTS\n" % spec)
        for k, v in constants.items():
            f.write(" %s = %s\n" % (k, v))
        if invariants:
            f.write("INVARIANTS %s\n" % " ".join(invariants))
        for pr in properties:
            f.write("PROPERTY %s\n" % pr)
    return p


def _trace_of(res):
    acts = re.findall(r"State \d+: <(\w+)(\([^)]*\))? line", res.out)
    s = " -> ".join(a + b for a, b in acts)
    m = re.search(r"Back to state (\d+)", res.out)
    if m:
        s += " -> (back to state %s: the loop repeats for ever)" % m.group(1)
    if "Stuttering" in res.out:
        s += " -> (stuttering)"
    return s


class Models:
    """Runs the TLC jobs of the protocol models on a thread pool; verdicts are drawn once the measured variant is known."""

    def __init__(self, tier):
        self.tier = tier
        self.pool = concurrent.futures.ThreadPoolExecutor(max_workers=max(2, vlib.NCPU // 2))
        self.futs = {}

    def submit(self, key, module, cfg, workers=1, deadlock=True, coverage=False):
        def job():
            # (a TLC process has been seen to sit idle for ever in a multi-worker liveness run: bounded time, one retry
            # with a single worker)
            limit = 600 if self.tier == "quick" else 2400
            res = run_tlc(module, cfg=cfg, workers=workers, timeout=limit, deadlock=deadlock, coverage=coverage, heap="4g")
            if res.error and "timed out" in res.error:
                log("[c19] TLC job %s timed out after %ds: retrying with one worker" % ("-".join(key), limit))
                res = run_tlc(module, cfg=cfg, workers=1, timeout=2400, deadlock=deadlock, coverage=coverage, heap="4g")
            return res
        self.futs[key] = self.pool.submit(job)

    def start(self):
        big = self.tier != "quick"
        W2, W3 = "{1, 2}", "{1, 2, 3}"
        # ---- pSBL: one run per invariant (TLC stops at the first violation), both variants
        for variant, tag in (('"pinned"', "pinned"), ('"sharedMutex"', "sharedMutex")):
            wk = W3 if big else W2
            c = {"Workers": wk, "MaxFails": 1 if not big else 2, "Variant": variant}
            self.submit(("psbl", tag, "safety"), "conc/PSBL",
                        _cfg("psbl-%s-safe" % tag, "FairSpec", c, ["TypeOK", "MutualExclusion", "Exclusion"], ["Termination"]),
                        workers=2 if big else 1, coverage=True)
            for inv in ("UnlockByOwner", "CounterZeroWhenIdle", "QuiescentClean"):
                cc = dict(c, Workers=W2, MaxFails=0 if inv == "UnlockByOwner" else 1)
                self.submit(("psbl", tag, inv), "conc/PSBL", _cfg("psbl-%s-%s" % (tag, inv), "Spec", cc, [inv]))
            self.submit(("psbl", tag, "RemovalHappens"), "conc/PSBL",
                        _cfg("psbl-%s-live" % tag, "NoPtcSpec", dict(c, Workers=W2, MaxFails=1), [], ["RemovalHappens"]))
        # ---- PRM: the eight variants are cheap; run the all-pinned and the all-fixed one plus the measured one later
        self.prm_consts = {"MaxV": 3 if not big else 4, "ExtraGoals": 1 if not big else 2}
        for sat in ("TRUE", "FALSE"):
            for fixed in ("FALSE", "TRUE"):
                c = dict(self.prm_consts, Satisficing=sat, FixPair=fixed, FixExpand=fixed, FixBest=fixed)
                tag = ("fixed" if fixed == "TRUE" else "pinned") + ("" if sat == "TRUE" else "-star")
                self.submit(("prm", tag, "safety"), "conc/PRMTwoThread",
                            _cfg("prm-%s-safe" % tag, "FairSpec", c,
                                 ["MutationsUnderLock", "ReportedSolutionConnects", "ApproximateOnlyWithoutExact"], ["Termination"]),
                            coverage=(sat == "TRUE"))
                for inv in ("LockDiscipline", "NoAccessDuringMutation", "ReportedCostIsAPathCost"):
                    self.submit(("prm", tag, inv), "conc/PRMTwoThread", _cfg("prm-%s-%s" % (tag, inv), "Spec", c, [inv]))
        # ---- small sharing models
        for fixed in ("FALSE", "TRUE"):
            tag = "fixed" if fixed == "TRUE" else "pinned"
            c = {"Trees": W2 if not big else W3, "MaxCost": 2 if not big else 1, "FixIter": fixed}   # 3 trees x 2 costs: > 15 min
            self.submit(("cforest", tag, "safety"), "conc/CForestShare",
                        _cfg("cforest-%s-safe" % tag, "FairSpec", c, ["TypeOK", "QueuesOwnTheirStates", "PopNeverEmpty", "LocksHeld"],
                             ["BestCostMonotone", "Termination"]), coverage=True)
            self.submit(("cforest", tag, "NoIterationDuringGrowth"), "conc/CForestShare",
                        _cfg("cforest-%s-iter" % tag, "Spec", c, ["NoIterationDuringGrowth"]))
            c = {"Workers": W2, "MaxCost": 2, "FixInit": fixed}
            self.submit(("aps", tag, "safety"), "conc/APSShare",
                        _cfg("aps-%s-safe" % tag, "FairSpec", c, ["TypeOK", "PathListUnderLock"], ["Termination"]), coverage=True)
            self.submit(("aps", tag, "BestCostIsBestPath"), "conc/APSShare",
                        _cfg("aps-%s-best" % tag, "Spec", c, ["BestCostIsBestPath"], ["BestCostMonotone"]))
            c = {"Threads": W2, "Calls": 2, "Size": 2, "Atomic": fixed}
            self.submit(("goalstates", tag, "IndexInRange"), "conc/GoalStatesSample",
                        _cfg("goalstates-%s" % tag, "Spec", c, ["IndexInRange", "TypeOK"]), coverage=True)

    def judge(self, ck, feats):
        res = {k: f.result() for k, f in self.futs.items()}
        self.pool.shutdown()
        for k, r in res.items():
            if r.error:
                raise FrameworkError("%s: %s" % (k, r.error))
            ck.tlc(r, "-".join(k))
        measured = {
            "psbl": feats.get("psbl_variant", "pinned"),
            "cforest": "fixed" if feats.get("cforest_fix_iter") else "pinned",
            "aps": "fixed" if feats.get("aps_fix_init") else "pinned",
            "goalstates": "fixed" if feats.get("goalstates_atomic") else "pinned",
        }
        prm_flags = (feats.get("prm_fix_pair"), feats.get("prm_fix_expand"), feats.get("prm_fix_best"))
        # the PRM variant actually measured, if it is a mixed one: run it now
        extra = {}
        if len(set(prm_flags)) > 1:
            for sat in ("TRUE", "FALSE"):
                c = dict(self.prm_consts, Satisficing=sat, FixPair=str(bool(prm_flags[0])).upper(),
                         FixExpand=str(bool(prm_flags[1])).upper(), FixBest=str(bool(prm_flags[2])).upper())
                tag = "measured" + ("" if sat == "TRUE" else "-star")
                extra[("prm", tag, "safety")] = run_tlc("conc/PRMTwoThread", cfg=_cfg("prm-%s-safe" % tag, "FairSpec", c,
                                                        ["MutationsUnderLock", "ReportedSolutionConnects", "ApproximateOnlyWithoutExact"],
                                                        ["Termination"]), deadlock=True, timeout=1200)
                for inv in ("LockDiscipline", "NoAccessDuringMutation", "ReportedCostIsAPathCost"):
                    extra[("prm", tag, inv)] = run_tlc("conc/PRMTwoThread", cfg=_cfg("prm-%s-%s" % (tag, inv), "Spec", c, [inv]),
                                                       deadlock=True, timeout=1200)
            for k, r in extra.items():
                if r.error:
                    raise FrameworkError("%s: %s" % (k, r.error))
                ck.tlc(r, "-".join(k))
            res.update(extra)
            measured["prm"] = "measured"
        else:
            measured["prm"] = "fixed" if prm_flags[0] else "pinned"
        ck.set("model_variant_checked_for_verdict", measured)
        found = {}
        for (model, tag, what), r in sorted(res.items()):
            base = tag.replace("-star", "")
            if base == measured[model]:
                # the variant the code implements: every invariant must hold
                if r.violated:
                    inv = what if what != "safety" else r.violated
                    key = "model:%s:%s" % (model, inv if inv not in ("unknown", "temporal") else what)
                    found[key] = _trace_of(r)
                    rp = ck.replay_file("model-%s-%s-%s.txt" % (model, tag, what), r.out[-20000:])
                    ck.violation(key, "protocol model %s (variant '%s', the one the recorded hook traces show): %s violated; "
                                      "counterexample: %s" % (model, tag, inv, _trace_of(r)[:900]), rp)
        # vacuity of the invariants: the uncorrected transcription must violate them, the corrected one must not
        expect_pinned_fails = {("psbl", "UnlockByOwner"), ("psbl", "CounterZeroWhenIdle"), ("psbl", "QuiescentClean"),
                               ("psbl", "RemovalHappens"), ("prm", "LockDiscipline"), ("prm", "NoAccessDuringMutation"),
                               ("prm", "ReportedCostIsAPathCost"), ("cforest", "NoIterationDuringGrowth"),
                               ("aps", "BestCostIsBestPath"), ("goalstates", "IndexInRange")}
        for (model, tag, what), r in sorted(res.items()):
            base = tag.replace("-star", "")
            if base in ("pinned",) and (model, what) in expect_pinned_fails and not r.violated:
                raise FrameworkError("vacuity gate: %s does not violate %s in the uncorrected variant" % (model, what))
            if base in ("fixed", "sharedMutex") and r.violated:
                raise FrameworkError("model %s: the corrected variant '%s' violates %s (%s)" % (model, tag, what, r.violated))
        ck.set("model_counterexamples", found)
        # every action of every model was taken in some run of that model (TLC coverage; an action that belongs to one
        # variant only is covered by that variant's run)
        per_model = {}
        for (model, _tag, _what), r in res.items():
            for a, (taken, _g) in r.coverage.items():
                per_model.setdefault(model, {}).setdefault(a, 0)
                per_model[model][a] += taken
        for model, acts in sorted(per_model.items()):
            dead = sorted(a for a, n in acts.items() if n == 0 and a not in ("Init", "Terminated"))
            if dead:
                raise FrameworkError("vacuity gate: actions of model %s never taken in any variant: %s" % (model, dead))
        ck.set("model_actions_covered", {m: len(a) for m, a in sorted(per_model.items())})
        ck.set("protocol_models", sorted({"%s/%s" % (m, t) for (m, t, _w) in res}))
