"""C16 - constrained spaces keep sampled, interpolated and path states on the manifold.

The part of the property that is a state machine is modelled and bound; the numeric part is
judged by a contract over recorded facts.

1. TLC model-checks specs/spaces/Geodesic.tla: ProjectedStateSpace / AtlasStateSpace /
   TangentBundleStateSpace::discreteGeodesic, ConstrainedStateSpace::interpolate /
   geodesicInterpolate and both ConstrainedMotionValidator::checkMotion overloads, transcribed
   statement by statement over an exact sub-domain (a lattice line of dyadic cells in R^n, a
   scripted environment: cells where the projection fails or jumps, cells that are invalid, chart
   radius, chart limit).  For EVERY configuration within the bounds: geodesic states on the
   manifold, steps within lambda * delta, success => end within delta of the target, interpolate
   returns a stored state (the last one at t = 1) that satisfies the constraint, checkMotion true
   => geodesic succeeded over validated states.  Every finished behaviour is printed with the
   expected result.
2. harness/constrained.cpp replays ALL of them on the real spaces (three embeddings of the
   lattice) inside the scripted environment (its own Constraint / StateValidityChecker
   subclasses), compares result, state list and the sequence of environment queries with the model
   (drift metric) and logs the contract-level facts of what the real code returned.
3. The harness records samplers, valid-state samplers, interpolation, geodesics, motion checks
   and planners on real manifolds (sphere, torus, planes, intersections, products; co-dimension
   1..3) for the three space kinds under swept parameters; facts come from its own closed-form
   constraint functions.
4. TLC validates every logged record against specs/spaces/ConstrainedContract.tla
   (ConstrainedContractTrace, report-and-advance): that is where verdicts come from.
"""
import json
import os
import shutil
import time
import vlib
from vlib import Check, run_tlc, run_cmd, build_harness, validate_trace, FrameworkError, WORK, log

PID = "C16"
MODEL_INVARIANTS = ("TypeOK GeoOnManifold GeoStepBound GeoSuccessNear TBEndOnManifold InterpInRange InterpEnd InterpStartIsFrom "
                    "InterpOnManifold MotionNeedsGeodesic MotionStatesValid MotionFormsAgree LastValidOnGeodesic Bounded")
ACTIONS = ["PJStart", "PJProject", "PJValid", "PJStep", "PJRet", "ATStartValid", "ATStart", "ATPsi", "ATValid", "ATAccept",
           "ATRet", "TBAdvance", "TBValid", "TBLimits", "TBFun", "TBPsi", "TBRet"]
# every way out of the three loops that exists on the exact sub-domain (model exit names); the exits of the
# atlas loops that need a curved manifold (step-size back-off, step below machine epsilon, leaving the
# lambda ball) are written down in the model and can not be taken on a flat chart - stated limit
REQUIRED_EXITS = ["PJ:near", "PJ:arrived", "PJ:projfail", "PJ:invalid", "PJ:deviated", "PJ:wandered", "PJ:nocloser",
                  "AT:badstart", "AT:near", "AT:arrived", "AT:psifail", "AT:invalid", "AT:charts",
                  "TB:near", "TB:arrived", "TB:psifail", "TB:invalid", "TB:charts"]
REQUIRED_INTERP = ["first", "inner", "last", "tb-fallback", "geodesic-failed"]
SPACES = ["PJ", "AT", "TB"]
EVENTS = ["Sample", "ValidSample", "Interp", "Geo", "Motion"]
# clauses whose antecedent has to be seen true (measured on the recorded facts)
NONTRIVIAL = ["sampleOnManifold", "validSampleOnManifold", "interpOnManifold", "geoStatesOnManifold", "geoStepBound",
              "geoEndsNearTarget", "motionNeedsGeodesic", "pathVerticesOnManifold", "tbGeodesicExempt"]
FRAMEWORK_CLAUSES = {"wellFormed", "endsOnManifold"}


def _tier(tier):
    if tier == "quick":
        return dict(models=[("main", dict(Kinds='{"PJ", "AT", "TB"}', MaxT=6, DSet="{1, 2, 3}", LSet="{3, 4, 5}", JBack=2,
                                          JFwd=3, RSet="{1, 2, 100}", MCSet="{0, 1, 200}", TDen=4)),
                            ("wander", dict(Kinds='{"PJ"}', MaxT=5, DSet="{3}", LSet="{6}", JBack=4, JFwd=6, RSet="{1}",
                                            MCSet="{0}", TDen=4))])
    return dict(models=[("main", dict(Kinds='{"PJ", "AT", "TB"}', MaxT=8, DSet="{1, 2, 3}", LSet="{3, 4, 5, 6}", JBack=3,
                                      JFwd=4, RSet="{1, 2, 3, 100}", MCSet="{0, 1, 2, 200}", TDen=8)),
                        ("pj-wide", dict(Kinds='{"PJ"}', MaxT=10, DSet="{1, 2, 3, 4}", LSet="{3, 4, 5, 6, 7}", JBack=4, JFwd=5,
                                         RSet="{1}", MCSet="{0}", TDen=8)),
                        ("wander", dict(Kinds='{"PJ"}', MaxT=7, DSet="{3}", LSet="{5, 6}", JBack=5, JFwd=7, RSet="{1}",
                                        MCSet="{0}", TDen=4))])


def _cfg(name, consts, invariants, emit=True):
    d = vlib.ensure_dir(os.path.join(WORK, "cfg-c16"))
    p = os.path.join(d, "Geodesic-%s.cfg" % name)
    lines = ["SPECIFICATION Spec", "CONSTANTS"] + ["  %s = %s" % (k, v) for k, v in consts.items()]
    lines.append("INVARIANTS " + invariants + (" EmitDone" if emit else ""))
    open(p, "w").write("\n".join(lines) + "\n")
    return p


def _lines(out, tag):
    return [json.loads(l[len(tag) + 1:]) for l in out.splitlines() if l.startswith(tag + " ")]


def _run_binary(cmd, timeout=None, env=None):
    """run_cmd, retried while libompl.so is being relinked by a concurrent build of the shared work tree."""
    for _ in range(6):
        rc, out, err = run_cmd(cmd, timeout=timeout, env=env)
        if rc == 127 and "error while loading shared libraries" in err:
            time.sleep(10)
            continue
        break
    return rc, out, err


def _harness(ck, binary, args, label, timeout):
    rc, out, err = _run_binary([binary] + args, timeout=timeout)
    for l in out.splitlines():
        if l.startswith("FRAMEWORK"):
            raise FrameworkError("constrained harness (%s): %s" % (label, l))
    summ = _lines(out, "SUMMARY")
    if rc == 0 and summ:
        return out, summ[0]
    if rc in (70, 77, 78) or rc < 0 or "CRASH" in out:
        rp = ck.replay_file("crash-%s.txt" % label, (out + "\n" + err)[-6000:])
        ck.violation("crash:" + label, "constrained harness crashed in %s: %s" % (label, (out + err)[-600:]), rp)
        return out, None
    raise FrameworkError("constrained harness %s failed (rc=%s): %s" % (label, rc, (out + err)[-2000:]))


# ---------------------------------------------------------------------------- model
def _models(ck, t):
    """Model check every configuration; returns the finished behaviours (cases)."""
    cases, taken, model_bad = [], {}, False
    for name, consts in t["models"]:
        rows = []
        res = run_tlc("spaces/Geodesic", cfg=_cfg("%s-%s" % (ck.tier, name), consts, MODEL_INVARIANTS), workers=1,
                      timeout=3000, coverage=True, json_sink=rows.append)
        ck.tlc(res, "Geodesic-" + name)
        if res.violated:
            # the transcription breaks a property of the model: design-level finding; the verdict on the code
            # comes from the contract over what the replay observes
            log("[C16] note: TLC reports %s violated in the geodesic model (%s)" % (res.violated, name))
            ck.set("model_violation", res.violated)
            model_bad = True
        for a in ACTIONS:
            taken[a] = taken.get(a, 0) + res.coverage.get(a, (0, 0))[0]
        rows = [r for r in rows if "kind" in r and "exit" in r]
        for r in rows:
            r["model"] = name
        cases += rows
    idle = [a for a in ACTIONS if not taken.get(a)]
    if idle and not model_bad:
        raise FrameworkError("vacuity gate: actions of Geodesic.tla never taken: %s" % idle)
    ck.set("model_actions_taken", taken)
    exits = {}
    for c in cases:
        k = "%s:%s" % (c["kind"], c["exit"])
        exits[k] = exits.get(k, 0) + 1
    ck.set("model_exits_enumerated", exits)
    lack = [e for e in REQUIRED_EXITS if e not in exits]
    if lack and not model_bad:
        raise FrameworkError("vacuity gate: loop exits never enumerated by the model: %s" % lack)
    return cases


# ---------------------------------------------------------------------------- verdicts from TLC
def _key(ev, clause):
    e = ev.get("e")
    if e in ("Crash", "Hang", "Threw") or clause in ("Crash", "Hang", "Threw"):
        return "%s:%s:%s:%s" % (clause, ev.get("sp"), ev.get("mf"), ev.get("planner") or "block-%s" % ev.get("cfg"))
    if e == "PlannerPath":
        return "PlannerPath:%s:%s:%s:%s" % (ev["sp"], ev["mf"], ev["planner"], clause)
    return "%s:%s:%s:%s" % (e, ev["sp"], ev["mf"], clause)


def _describe(ev, clause, bads):
    e = ev.get("e")
    head = {k: v for k, v in ev.items() if not isinstance(v, list)}
    txt = "%s record of %s on %s breaks clause %s: %s" % (e, ev.get("sp"), ev.get("mf"), clause, json.dumps(head))
    for b in bads:
        if b.get("sp") == ev.get("sp") and b.get("mf") == ev.get("mf") and b.get("cfg") == ev.get("cfg"):
            what = b.get("what", "")
            if (e == "Sample" and what == "sample:" + ev.get("mode", "")) or (e == "Interp" and what == "interpolate") or \
                    (e == "Geo" and what == "geodesic") or (e == "Motion" and what == "checkMotion") or \
                    (e == "PlannerPath" and what == "path-vertex") or (e == "ValidSample" and what.startswith("validsample")):
                txt += "; e.g. " + json.dumps(b)[:1800]
                break
    return txt


def _judge(ck, path, label, bads, tier, extra=None):
    """One TLC pass over a recorded trace; every (record, failed clause) becomes a violation with a stable key.
    Returns (events, number of records with a failed clause)."""
    events = vlib.read_ndjson(path)
    rows = []
    acc, prefix, res = validate_trace("spaces/ConstrainedContractTrace", path, timeout=3000, json_sink=rows.append)
    for l in res.out.splitlines():                      # (buffer tail of the TLC output)
        l = l.strip().strip('"').replace('\\"', '"')
        if l.startswith("{") and l.endswith("}") and '"failed"' in l:
            try:
                rows.append(json.loads(l))
            except ValueError:
                pass
    if not acc:
        bad = events[prefix] if prefix is not None and prefix < len(events) else {}
        raise FrameworkError("trace %s not consumed by ConstrainedContractTrace at record %s: %s"
                             % (label, prefix, json.dumps(bad)[:400]))
    seen, nbad = set(), 0
    for r in rows:
        if "line" not in r or r["line"] in seen:
            continue
        seen.add(r["line"])
        ev = events[r["line"] - 1]
        fw = [c for c in r["failed"] if c in FRAMEWORK_CLAUSES]
        if fw:
            raise FrameworkError("harness record breaks its own precondition %s: %s" % (fw, json.dumps(ev)[:600]))
        nbad += 1
        for clause in sorted(r["failed"]):
            key = _key(ev, clause)
            name = "".join(ch if ch.isalnum() else "-" for ch in key)[:100]
            art = {"tier": tier, "seed": vlib.seed(), "event": ev, "failed": r["failed"]}
            if label == "replay":
                art["kind"] = "lattice"
                art["case"] = extra[ev["ci"]] if extra and "ci" in ev else None
            elif ev.get("e") in ("PlannerPath",) or ev.get("plan") == 1:
                art["kind"] = "plan"
                art["args"] = [ev.get("sp"), ev.get("mf"), ev.get("planner"), str(ev.get("cfg")), str(ev.get("budget", 1500))]
            else:
                art["kind"] = "block"
                art["args"] = [ev.get("sp"), ev.get("mf"), str(ev.get("cfg"))]
            rp = ck.replay_file(name + ".json", json.dumps(art, indent=1))
            ck.violation(key, _describe(ev, clause, bads), rp)
    ck.add("trace_events_validated", sum(e.get("mult", 1) for e in events))
    ck.add("trace_records_judged_by_tlc", len(events))
    return events, nbad


def _nontrivial(events, counts):
    """How often the antecedent of each clause held (measurement only)."""
    for ev in events:
        e, sp, m = ev.get("e"), ev.get("sp"), ev.get("mult", 1)
        if e == "Sample":
            counts["sampleOnManifold"] += m * len(ev["sat"])
        elif e == "ValidSample":
            counts["validSampleOnManifold"] += m * sum(ev["ret"])
        elif e == "Interp":
            counts["interpOnManifold"] += m * len(ev["sat"])
        elif e == "Geo":
            if sp in ("PJ", "AT") and ev["ok"] == 1 and ev["n"] >= 2:
                counts["geoStatesOnManifold"] += m
                counts["geoStepBound"] += m
                counts["geoEndsNearTarget"] += m
            if sp == "TB" and ev["ok"] == 1 and ev["unsat"] > 0:
                counts["tbGeodesicExempt"] += m
        elif e == "Motion":
            counts["motionNeedsGeodesic"] += m * ev["cm"]
        elif e == "PlannerPath":
            counts["pathVerticesOnManifold"] += m * len(ev["sat"])


def run(tier):
    ck = Check(PID, tier, "exploration")
    t = _tier(tier)
    ck.assumptions += [
        "pairs handed to interpolate / discreteGeodesic / checkMotion are on the manifold (the property's quantifier); "
        "start and goal states of planner runs are on the manifold and valid",
        "'within its tolerance' is |f(x)|_2 <= tol (1 + 1e-9) + 1e-12 with the harness's own closed-form constraint "
        "function; the step bound is lambda * delta, 'one step size' is delta (relative margin 1e-9)",
        "exact sub-domain of the model: flat manifolds on a dyadic lattice; the scripted Constraint::project may move a "
        "state along the manifold (any map into the manifold is a legal user projection)",
        "exits of the atlas loops that need curvature (step-size back-off, step below machine epsilon, leaving the "
        "lambda ball) are transcribed but unreachable on the flat sub-domain; they are exercised on real manifolds "
        "only through the recorded facts",
        "planner runs end by an evaluation-count termination condition; every block / run is its own process seeded by "
        "RNG::setSeed(mix(VERIF_SEED, block))",
    ]
    binary = build_harness("constrained", needs_lib=True)

    # ---- 1. model check + enumerate
    cases = _models(ck, t)
    cpath = os.path.join(WORK, "c16-cases-%s.ndjson" % tier)
    vlib.write_ndjson(cpath, cases)
    ck.set("model_cases", len(cases))

    # ---- 2. replay on the real spaces
    tpath_r = os.path.join(WORK, "c16-replay-trace-%s.ndjson" % tier)
    out, summ = _harness(ck, binary, ["replay", cpath, tpath_r], "replay", 3000)
    replay_bad = 0
    if summ:
        ck.add("evaluations", summ["runs"] + summ["derived_calls"])
        for k in ("cases", "runs", "derived_calls", "bindings", "events", "distinct_records"):
            ck.set("replay_" + k, summ[k])
        ck.set("replay_exits_matched", summ["exits_matched"])
        ck.set("replay_interpolate_branches", summ["interp_branches"])
        ck.set("impl_drift_runs", summ["drift"])                      # metric only
        ck.set("impl_drift_keys", summ["drift_keys"])
        for d in _lines(out, "DRIFT")[:3]:
            log("[C16] drift (not a verdict): %s binding %s got %s" % (d["key"], d["binding"], json.dumps(d["got"])[:300]))
        _, replay_bad = _judge(ck, tpath_r, "replay", [], tier, extra=cases)
        if summ["drift"] == 0 and replay_bad == 0:
            lack = [e for e in REQUIRED_EXITS if not summ["exits_matched"].get(e)]
            lack += ["interpolate:" + b for b in REQUIRED_INTERP if not summ["interp_branches"].get(b)]
            if lack:
                raise FrameworkError("vacuity gate: loop exits / interpolation branches never taken by the real code in "
                                     "the replay: %s" % lack)
        ck.sample({"kind": "replayed model case (x %d bindings)" % summ["bindings"],
                   "case": next((c for c in cases if c["exit"] == "wandered"), cases[len(cases) // 2])})
        ck.sample({"kind": "replayed model case", "case": next((c for c in cases if c["kind"] == "TB" and c["ip"]
                                                                and c["ret"] and len(c["geo"]) > 3), cases[0])})

    # ---- 3. record on real manifolds
    tpath_m = os.path.join(WORK, "c16-record-trace-%s.ndjson" % tier)
    wdir = vlib.ensure_dir(os.path.join(WORK, "c16-parts-%d" % os.getpid()))
    try:
        out, summ = _harness(ck, binary, ["record", tpath_m, tier, str(vlib.NCPU), wdir], "record", 6000)
    finally:
        shutil.rmtree(wdir, ignore_errors=True)
    counts = {c: 0 for c in NONTRIVIAL}
    if summ:
        bads = _lines(out, "BAD")
        events, rec_bad = _judge(ck, tpath_m, "record", bads, tier)
        _nontrivial(events, counts)
        _nontrivial(vlib.read_ndjson(tpath_r), counts)
        items = sum(len(e.get("sat", [])) or 1 for e in events)
        ck.add("evaluations", items)
        ck.set("record_jobs", summ["jobs"])
        ck.set("record_events", summ["per_event"])
        ck.set("record_per_space", summ["per_space"])
        ck.set("record_per_manifold", summ["per_manifold"])
        ck.set("planner_status", summ["plan_status"])
        ck.set("planner_paths", summ["paths_per_planner"])
        ck.set("children_died", summ["died"])
        # planners that crashed inside their own data structures (no constrained-space frame on the stack): not a
        # verdict of this property, listed for the report
        died = [d["job"] for d in _lines(out, "DIED")]
        ck.set("planner_runs_died_in_planner_code", died[:20])
        for d in died[:5]:
            log("[C16] note: planner run died in planner code (not judged here): %s" % json.dumps(d))
        cells = summ["cells"]
        manifolds = sorted({k.split("/", 1)[1] for k in cells})
        missing = ["%s/%s:%s" % (sp, mf, e) for sp in SPACES for mf in manifolds for e in EVENTS
                   if not cells.get("%s/%s" % (sp, mf), {}).get(e)]
        noplan = [sp for sp in SPACES if not any(cells.get("%s/%s" % (sp, mf), {}).get("PlannerPath") for mf in manifolds)]
        nopath = [p for p, n in summ["paths_per_planner"].items() if n == 0]
        if (missing or noplan or len(manifolds) < 8 or len(summ["paths_per_planner"]) < 10) and summ["died"] == len(died):
            raise FrameworkError("vacuity gate: space kind x manifold x event cells never recorded: %s %s %s"
                                 % (missing[:10], noplan, nopath))
        ck.set("manifolds", manifolds)
        ck.set("distinct_nontrivial", sum(1 for k in cells for e in cells[k]) + len(ck.cov.get("replay_exits_matched", {})))
        ev = next((e for e in events if e.get("e") == "Geo" and e["sp"] == "AT" and e["n"] > 5), None)
        ck.sample({"kind": "recorded geodesic facts", "event": ev})
        ev = next((e for e in events if e.get("e") == "PlannerPath" and e["sp"] == "TB" and e["hasPath"] == 1), None)
        ck.sample({"kind": "recorded planner path", "event": ev})
    ck.set("clause_antecedent_counts", counts)
    if not ck.violations:
        idle = [c for c, n in counts.items() if n == 0]
        if idle:
            raise FrameworkError("vacuity gate: clauses never evaluated non-trivially: %s" % idle)
    ck.set("rule", "every behaviour of the geodesic model (space kind x delta x lambda x target x interpolate flag x "
                   "chart radius x chart limit x every script of failing / jumping projections and invalid cells) on every "
                   "lattice embedding; every space kind x manifold x parameter set x {sampler source x mode, valid sampler, "
                   "pair class (far, near, within delta, antipodal, identical) x {geodesic with and without validity, "
                   "interpolate at 6 t, both checkMotion forms}}; every planner x space kind x manifold x parameter set; "
                   "distinct_nontrivial counts the (space kind, manifold, event) cells recorded plus the (space kind, "
                   "loop exit) classes the real code took in the replay")
    return ck.finish()


# ---------------------------------------------------------------------------- replay of an artefact
def replay(path):
    """Re-execute a replay artefact written by run(): a recording block / planner run (same seed, own
    process) or a lattice case; the observations are judged again by TLC."""
    binary = build_harness("constrained", needs_lib=True)
    tmp = vlib.ensure_dir(os.path.join(WORK, "c16-replay"))
    tp = os.path.join(tmp, "trace.ndjson")
    if path.endswith(".ndjson"):
        shutil.copyfile(path, tp)
    else:
        art = json.load(open(path))
        env = {"VERIF_SEED": str(art.get("seed", 1))}
        quick = art.get("tier", "quick") == "quick"
        lines = []
        if art.get("kind") == "lattice":
            cp = os.path.join(tmp, "case.ndjson")
            vlib.write_ndjson(cp, [art["case"]])
            rc, out, err = _run_binary([binary, "replay", cp, tp], timeout=600)
            print(out[-3000:])
            if rc != 0:
                print("the replay died: rc=%s %s" % (rc, err[-800:]))
                return 1
            lines = None
        elif art["kind"] == "plan":
            cmd = [binary, "plan"] + art["args"]
        else:
            cmd = [binary, "block"] + art["args"] + (["24", "2"] if quick else ["60", "4"])
        if lines is not None:
            rc, out, err = _run_binary(cmd, timeout=1200, env=env)
            lines = [l for l in out.splitlines() if l.startswith("{")]
            for l in out.splitlines():
                if l.startswith("BAD "):
                    print(l[:2500])
            if rc != 0 and not lines:
                print("the run died: rc=%s %s" % (rc, (out + err)[-800:]))
                return 1
            open(tp, "w").write("\n".join(['{"e":"Reset"}'] + lines) + "\n")
    rows = []
    acc, prefix, res = validate_trace("spaces/ConstrainedContractTrace", tp, json_sink=rows.append)
    events = vlib.read_ndjson(tp)
    seen = set()
    for r in rows:
        if "line" in r and r["line"] not in seen:
            seen.add(r["line"])
            ev = events[r["line"] - 1]
            print("REJECTED %s: %s" % (r["failed"], json.dumps({k: v for k, v in ev.items() if not isinstance(v, list)})))
    print("trace %s, %d record(s) break the contract" % ("consumed" if acc else "NOT consumed", len(seen)))
    return 1 if seen or not acc else 0


def selftest():
    """Binding demonstration that needs no rebuild of the library: one field of a recorded trace is corrupted by
    hand, several ways, and ConstrainedContractTrace must report exactly that record and clause; a wrong
    expectation in a model case must show up as drift.  Source mutations: tools/mutate.py C16 mutants/C16/*.diff."""
    import copy
    binary = build_harness("constrained", needs_lib=True)
    d = vlib.ensure_dir(os.path.join(WORK, "c16-selftest"))
    rc, out, err = _run_binary([binary, "block", "AT", "sphere3", "0"], timeout=600)
    ev = [{"e": "Reset"}] + [json.loads(l) for l in out.splitlines() if l.startswith("{")]
    rc, out, err = _run_binary([binary, "block", "TB", "torus3", "0"], timeout=600)
    ev += [json.loads(l) for l in out.splitlines() if l.startswith("{")]
    ok = True

    def corrupt(label, pick, edit, clause):
        nonlocal ok
        a = copy.deepcopy(ev)
        i = next(k for k, e in enumerate(a) if pick(e))
        edit(a[i])
        p = os.path.join(d, "corrupt-%s.ndjson" % label)
        vlib.write_ndjson(p, a)
        rows = []
        acc, prefix, res = validate_trace("spaces/ConstrainedContractTrace", p, json_sink=rows.append)
        hit = {(r["line"], c) for r in rows if "line" in r for c in r["failed"]}
        good = acc and hit == {(i + 1, clause)}
        print("selftest %-30s %s %s" % (label, "ok" if good else "NOT DETECTED", sorted(hit)))
        ok = ok and good

    corrupt("sample-flag", lambda e: e["e"] == "Sample" and e["mode"] == "G", lambda e: e["sat"].__setitem__(2, 0),
            "sampleOnManifold")
    corrupt("tb-interp-flag", lambda e: e["e"] == "Interp" and e["sp"] == "TB", lambda e: e["sat"].__setitem__(1, 0),
            "interpOnManifold")
    corrupt("geo-unsat", lambda e: e["e"] == "Geo" and e["sp"] == "AT" and e["ok"] == 1 and e["n"] > 2,
            lambda e: e.__setitem__("unsat", 1), "geoStatesOnManifold")
    corrupt("geo-step", lambda e: e["e"] == "Geo" and e["sp"] == "AT" and e["ok"] == 1 and e["n"] > 2,
            lambda e: e.__setitem__("stepOk", 0), "geoStepBound")
    corrupt("geo-end", lambda e: e["e"] == "Geo" and e["sp"] == "AT" and e["ok"] == 1 and e["n"] > 2,
            lambda e: e.__setitem__("endOk", 0), "geoEndsNearTarget")
    corrupt("motion", lambda e: e["e"] == "Motion" and e["cm"] == 1, lambda e: e.__setitem__("geoOk", 0),
            "motionNeedsGeodesic")
    corrupt("valid-sample", lambda e: e["e"] == "ValidSample" and e["ret"][0] == 1, lambda e: e["sat"].__setitem__(0, 0),
            "validSampleOnManifold")
    corrupt("crash", lambda e: e["e"] == "Geo", lambda e: e.__setitem__("e", "Crash"), "Crash")
    # the TB exemption must be an exemption: the same corruption on a TB geodesic is accepted
    a = copy.deepcopy(ev)
    i = next(k for k, e in enumerate(a) if e["e"] == "Geo" and e["sp"] == "TB" and e["ok"] == 1 and e["n"] > 2)
    a[i]["unsat"], a[i]["stepOk"] = a[i]["n"], 0
    p = os.path.join(d, "tb-exempt.ndjson")
    vlib.write_ndjson(p, a)
    rows = []
    acc, prefix, res = validate_trace("spaces/ConstrainedContractTrace", p, json_sink=rows.append)
    good = acc and not [r for r in rows if "line" in r]
    print("selftest %-30s %s" % ("tb-geodesic-exempt", "ok" if good else "WRONG"))
    ok = ok and good
    # a wrong expectation in a model case must show up as drift of the replay (and only there)
    rows = []
    small = dict(Kinds='{"PJ", "AT", "TB"}', MaxT=3, DSet="{1}", LSet="{4}", JBack=1, JFwd=1, RSet="{1}", MCSet="{0}", TDen=4)
    res = run_tlc("spaces/Geodesic", cfg=_cfg("selftest", small, MODEL_INVARIANTS), workers=1, timeout=600, json_sink=rows.append)
    rows = [r for r in rows if "kind" in r and "exit" in r]
    cp, tp = os.path.join(d, "cases.ndjson"), os.path.join(d, "trace.ndjson")
    vlib.write_ndjson(cp, rows)
    rc, out, err = _run_binary([binary, "replay", cp, tp], timeout=600)
    clean = _lines(out, "SUMMARY")[0]["drift"]
    for k in ("PJ", "AT", "TB"):
        c = next(r for r in rows if r["kind"] == k and len(r["geo"]) >= 3)
        c["geo"][1] += 1
    vlib.write_ndjson(cp, rows)
    rc, out, err = _run_binary([binary, "replay", cp, tp], timeout=600)
    summ = _lines(out, "SUMMARY")[0]
    good = clean == 0 and summ["drift"] == 3 * summ["bindings"] and not res.violated
    print("selftest %-30s %s (drift %d -> %d)" % ("wrong-model-expectation", "ok" if good else "NOT DETECTED", clean, summ["drift"]))
    ok = ok and good
    shutil.rmtree(d, ignore_errors=True)
    return 0 if ok else 1
