"""C15 - informed sampling returns only, and all of, the states that can still help.

1. TLC model-checks specs/samplers/InformedLoops.tla (control structure of PathLengthDirectInfSampler,
   RejectionInfSampler and OrderedInfSampler over an environment that scripts, per attempt, inclusion
   count / coin / bounds answer / cost class) and exports every script with the expected outcome;
   harness/informed.cpp replays each on the REAL classes wherever the environment is user code (state
   space bounds test, measure, default sampler, start/goal geometry, wrapped sampler) and records the
   attempt sequences where it is the sampler's private random source; those are validated by TLC as
   behaviours of the model (specs/samplers/InformedLoopsTrace.tla).
2. TLC proves on specs/samplers/MultiFocus.tla, by counting equally likely triples of random numbers on
   a finite universe of cells, that "choose a region by measure, a cell uniformly, accept with 1/k,
   reject out of bounds" returns every cell of the union inside the bounds with the same probability and
   no other cell; the model mutations (no 1/k, uniform choice of the region) must be rejected.
3. The harness records Sample / Surface / Measure / InPhs / Hist observations of the real classes over
   the sweeps of the property's quantifier; every fact handed to the contract is computed independently
   of the library (own bounds test, focal sums in long double, analytic volumes, interval quadrature).
4. All observations are validated by TLC against specs/samplers/InformedContract.tla (one named clause
   per statement of the property): that is where verdicts come from.  Differences between the loops'
   model and the code (drift) are metrics, never verdicts.
"""
import copy
import json
import os
import shutil
import vlib
from vlib import Check, run_tlc, run_cmd, build_harness, validate_trace, FrameworkError, WORK, log

PID = "C15"
LOOP_INVARIANTS = ("SuccessSound DegenerateReturnsBoundaryPoints Bounded FalseOnlyExhausted FirstUsableReturned "
                   "PruneRule OrdSound OrdSorted OrdQueueSorted OrdNothingUsableDiscarded OrdAtMostTwoBatches "
                   "OrdFalseOnlyAfterFreshBatch OrdFreshExitOnlyDegenerate")
# every action / exit of InformedLoops (vacuity: each must occur in the exported behaviours)
ACTIONS = ["Enter", "OTest", "HEnter", "HInf", "UKeep", "UErase", "UDegenerate", "HBranch", "WTest", "WDrawIn",
           "WDrawOut", "PTest", "PDrawCoinRejects", "PDrawOutOfBounds", "PDrawKept", "PDrawKeptInNoPhs", "RTest",
           "RDrawAccept", "RDrawReject", "HRet", "OMinNone", "OMinBelow", "OMinOk", "OInc", "OrdCall",
           "OrdQueueEmpty", "OrdQueueHasSamples", "OrdDrawFailed", "OrdDrawPushed", "OrdGiveUpEmpty",
           "OrdBatchReady", "OrdReturnTop", "OrdGiveUpFresh", "OrdDiscardStale"]
# loop exits / branches the scripted replay on the real classes must have gone through
REPLAY_EXITS = ["HInf", "UErase", "UDegenerate", "OMinBelow", "WDrawIn", "WDrawOut", "PDrawKept", "PDrawKeptInNoPhs",
                "PDrawOutOfBounds", "RDrawAccept", "RDrawReject", "OrdReturnTop", "OrdGiveUpEmpty", "OrdGiveUpFresh",
                "OrdDiscardStale"]
FAMILY = {"direct": "direct", "direct-raised": "direct-raised", "directctor": "direct", "wrapper": "direct", "wrapperown": "direct",
          "rejection": "rejection", "ordered": "ordered", "orderedrej": "ordered"}
MF_INVARIANTS = "OnlyTheUnion AllOfTheUnion Uniform ExactValue MachineIsOutcome DrawnCellInRegion"


def _tier(tier):
    if tier == "quick":
        return dict(
            loops=[("all", '{"direct", "rejection", "ordered"}', "{1, 2, 3}", "{1, 2}", "{1, 2}", "{1, 2}", 3)],
            multifocus=[(3, 2, True), (2, 3, True)], record_jobs=5, timeout=900, call_reps=1)
    return dict(
        loops=[("loops", '{"direct", "rejection"}', "{1, 2, 3, 4, 5}", "{1, 2, 3}", "{1}", "{1}", 0),
               ("ordered-b3", '{"ordered"}', "{1}", "{1}", "{1, 2, 3}", "{1, 2}", 3),
               ("ordered-c3", '{"ordered"}', "{1}", "{1}", "{1, 2}", "{1, 2, 3}", 3)],
        multifocus=[(3, 2, True), (2, 3, True), (4, 2, True), (3, 3, True)], record_jobs=5, timeout=3000, call_reps=6)


def _cfgdir():
    return vlib.ensure_dir(os.path.join(WORK, "cfg-c15"))


def _cfg_loops(name, kinds, nset, kset, bset, costs, maxcalls, rounding=False, invariants=LOOP_INVARIANTS + " EmitDone"):
    p = os.path.join(_cfgdir(), "InformedLoops-%s.cfg" % name)
    open(p, "w").write("\n".join([
        "SPECIFICATION Spec", "CONSTANTS", "  Kinds = " + kinds, '  Overloads = {"max", "minmax"}', "  NSet = " + nset,
        "  KSet = " + kset, "  BSet = " + bset, "  Costs = " + costs, "  MaxCalls = %d" % maxcalls,
        "  Rounding = %s" % ("TRUE" if rounding else "FALSE"), "INVARIANTS " + invariants]) + "\n")
    return p


def _cfg_mf(m, k, variant, stepwise, invariants=MF_INVARIANTS):
    p = os.path.join(_cfgdir(), "MultiFocus-%d-%d-%s.cfg" % (m, k, variant))
    open(p, "w").write("\n".join([
        "SPECIFICATION Spec", "CONSTANTS", "  M = %d" % m, "  KMax = %d" % k, '  Variant = "%s"' % variant,
        "  Stepwise = %s" % ("TRUE" if stepwise else "FALSE"), "INVARIANTS " + invariants]) + "\n")
    return p


def _lines(out, tag):
    return [json.loads(l[len(tag) + 1:]) for l in out.splitlines() if l.startswith(tag + " ")]


def _harness(ck, binary, args, label, timeout):
    for attempt in range(3):
        rc, out, err = run_cmd([binary] + args, timeout=timeout)
        if rc == 127 and "file too short" in err:     # libompl being re-linked by another check
            with vlib._Lock("build-plain"):
                pass
            continue
        break
    summ = _lines(out, "SUMMARY")
    if rc == 0 and summ:
        return out, summ[0]
    if rc == -999:
        rp = ck.replay_file("hang-%s.txt" % label, (out + "\n" + err)[-4000:])
        ck.violation("hang:" + label, "informed harness did not finish %s within %ds (a sampler call that does not "
                     "return)" % (label, timeout), rp)
        return out, None
    if rc in (70, 77, 78) or rc < 0 or "CRASH" in out:
        rp = ck.replay_file("crash-%s.txt" % label, (out + "\n" + err)[-4000:])
        ck.violation("crash:" + label, "informed harness crashed in %s: %s" % (label, (out + err)[-600:]), rp)
        return out, None
    raise FrameworkError("informed harness %s failed (rc=%s): %s" % (label, rc, (out + err)[-2000:]))


# ------------------------------------------------------------------ describing rejected observations
def _scalars(ev):
    return {k: v for k, v in ev.items() if not isinstance(v, list) and k != "world"}


def _key(ev, clause):
    """Stable key of one failed clause of one observation.  The strict inequality on the sampler's own cost
    has ONE key per sampler family in the recorded sweeps (the rounding effect of the known finding does not
    depend on space, dimension or bounds); a sample outside the informed set by more than rounding fails the
    cross-check clause as well, which has its own keys."""
    e = ev.get("e")
    if e == "Sample":
        fam = FAMILY.get(ev.get("kind"), ev.get("kind"))
        if ev.get("src"):
            return "replay:%s:%s:%s:%s" % (ev["src"], ev["kind"], ev["ov"], clause)
        if clause == "SuccessBelowBound":
            return "sample:%s:%s" % (fam, clause)
        return "sample:%s:%s:%s:%s" % (fam, ev.get("space"), ev.get("bounds"), clause)
    if e == "Surface":
        return "surface:dim%s:dir%s:%s" % (ev.get("n"), ev.get("dir"), clause)
    if e == "Measure":
        if ev.get("what") == "phs":
            return "measure:phs:dim%s:%s" % (ev.get("n"), clause)
        return "measure:%s:%s:%s:%s" % (FAMILY.get(ev.get("kind"), ev.get("kind")), ev.get("space"),
                                        "several" if ev.get("starts", 1) * ev.get("goals", 1) > 1 else "one", clause)
    if e == "InPhs":
        return "inphs:dim%s:dir%s:%s" % (ev.get("n"), ev.get("dir"), clause)
    if e == "Hist":
        return "uniform:%s:%s" % (ev.get("name"), clause)
    if e in ("Threw", "Crash", "Hang"):
        return "%s:%s:%s:%s" % (e.lower(), ev.get("name") or ev.get("src") or "record", ev.get("kind", ""),
                                ev.get("space", ""))
    return "rejected:%s:%s" % (e, clause)


def _describe(ev, clause):
    e = ev.get("e")
    sc = _scalars(ev)
    if e == "Sample":
        where = "scripted replay %s" % ev.get("cfg") if ev.get("src") else \
            "%s sampler in %s (n=%s, bounds %s, %s starts x %s goals, focal distance %s, bound %s, lower bound %s, " \
            "numIters %s)" % (ev.get("kind"), ev.get("space"), ev.get("n"), ev.get("bounds"), ev.get("starts"),
                              ev.get("goals"), ev.get("d"), ev.get("max"), ev.get("min") if ev.get("hasmin") else "none",
                              ev.get("N"))
        return "%s: %s fails; first offending call %s" % (where, clause, json.dumps(ev.get("bad"))[:900])
    if e == "Hist":
        n, lo, hi = ev["n_"], ev["elo"], ev["ehi"]
        worst = sorted(range(len(n)), key=lambda j: -max(n[j] - hi[j], lo[j] - n[j], 0))[:3]
        return "histogram %s (%s sampler, %s, %d samples, %d bins): %s fails; out=%s; worst bins %s" % (
            ev.get("name"), ev.get("kind"), ev.get("space"), ev.get("total"), len(n), clause, ev.get("out"),
            [(j, n[j], lo[j], hi[j]) for j in worst])
    return "%s observation breaks %s: %s" % (e, clause, json.dumps(sc)[:900])


def _judge(ck, path, label, tier):
    """One TLC pass over a recording; every line the contract refuses is reported by TLC with the names of the
    failed clauses."""
    events = vlib.read_ndjson(path)
    if not events:
        raise FrameworkError("empty recording " + label)
    reports = []
    acc, prefix, res = validate_trace("samplers/InformedContractTrace", path, timeout=3000, json_sink=reports.append)
    for l in res.out.splitlines():          # vlib can leave spec-printed JSON in the text tail
        l = l.strip().strip('"').replace('\\"', '"')
        if l.startswith('{"') and '"failed"' in l:
            try:
                reports.append(json.loads(l))
            except ValueError:
                pass
    if not acc:
        raise FrameworkError("recording %s was not consumed by InformedContractTrace (stopped at line %s): %s"
                             % (label, prefix, res.out[-1500:]))
    ck.tlc(res, "InformedContractTrace-" + label)
    ck.add("trace_events_validated", len(events))
    seen = set()
    n_rej = 0
    for r in reports:
        if "line" not in r or r["line"] in seen:
            continue
        seen.add(r["line"])
        ev = events[r["line"] - 1]
        n_rej += 1
        for clause in sorted(r["failed"]):
            key = _key(ev, clause)
            obj = {"tier": tier, "seed": vlib.seed(), "clause": clause, "event": _scalars(ev)}
            if "job" in ev:
                obj["job"] = ev["job"]
            if ev.get("src"):
                obj["replay_rows"] = True
            rp = ck.replay_file("%s.json" % key.replace(":", "-").replace("/", "_"), json.dumps(obj, indent=1))
            ck.violation(key, _describe(ev, clause), rp)
    return events, n_rej


def _count_nontrivial(ck, events, classes):
    """How often each clause was evaluated on something that could have failed it."""
    c = ck.cov.setdefault("clause_evaluations", {})

    def add(k, n):
        c[k] = c.get(k, 0) + n
    for ev in events:
        e = ev.get("e")
        if e == "Sample":
            succ = sum(ev["ret"])
            add("SuccessInBounds", succ)
            add("SuccessBelowBound", succ if not ev.get("degen") else 0)
            add("SuccessNotBelowLowerBound", succ if ev.get("hasmin") else 0)
            add("ReportedCostIsFocalSum", succ)
            add("ReturnsWithinAttemptBound", len(ev["att"]))
            add("returned_false", len(ev["ret"]) - succ)
            add("degenerate_bound_calls", len(ev["ret"]) if ev.get("degen") else 0)
            ck.add("evaluations", len(ev["ret"]))
            if succ:
                classes.add(("Sample", ev.get("src", "sweep"), ev.get("kind"), ev.get("space"), ev.get("ov"),
                             ev.get("bounds"), ev.get("n"), ev.get("starts", 1) * ev.get("goals", 1) > 1,
                             ev.get("rg"), ev.get("degen")))
        elif e == "Surface":
            add("SurfaceOnBoundary", len(ev["err"]))
            ck.add("evaluations", len(ev["err"]))
            classes.add(("Surface", ev["n"], ev["dir"]))
        elif e == "Measure":
            add("MeasureAnalytic", len(ev["err"]))
            add("measure_capped_by_space", ev.get("capped", 0))
            add("measure_uncapped_sampler", 1 if ev.get("what") == "sampler" and not ev.get("capped") else 0)
            ck.add("evaluations", len(ev["err"]))
            classes.add(("Measure", ev.get("what"), ev.get("kind"), ev.get("space"), ev["n"], ev.get("capped")))
        elif e == "InPhs":
            add("MembershipRight_inside", sum(ev["exp"]))
            add("MembershipRight_outside", len(ev["exp"]) - sum(ev["exp"]))
            ck.add("evaluations", len(ev["exp"]))
            classes.add(("InPhs", ev["n"], ev["dir"]))
        elif e == "Hist":
            add("Uniform_bins", ev["df"])
            add("Uniform_samples", ev["total"])
            add("NoneExcluded_bins", sum(1 for x in ev["elo"] if x > 50))
            add("overlap_samples", ev.get("overlap_samples", 0))
            add("hist_" + ev.get("branch", "?") + "_branch", 1 if FAMILY.get(ev["kind"]) == "direct" else 0)
            ck.add("evaluations", ev["total"])
            classes.add(("Hist", ev["name"]))


def run(tier):
    ck = Check(PID, tier, "exploration")
    t = _tier(tier)
    ck.assumptions += [
        "every start/goal pair is separated by more than the library's absolute 1e-9 circle tolerance, and the cost "
        "bound lies above the smallest focal distance (the property's quantifier); a bound exactly at the focal "
        "distance is only judged for 'the call returns within its attempts'",
        "in bounds = what the spaces define: position coordinates within [low, high] up to machine epsilon, yaw in "
        "[-pi, pi], unit quaternion to 1e-9",
        "the default state sampler of the space returns states inside the bounds (C08)",
        "strict inequalities are judged exactly on the cost the sampler reports (heuristicSolnCost); the harness's "
        "long-double recomputation is a cross-check with relative margin 1e-9",
        "'equals' for floating-point results (surface points, measures) means to 1e-9 relative; for measures the "
        "analytic value is taken over inputs moved by 4 ulp (conditioning of sqrt(c^2 - d^2) near c = d)",
        "uniformity is a statistical statement: seeded runs, per-bin Bernstein bound (2 exp(-42) per bin) and a "
        "chi-square bound (Laurent-Massart, x = 40); a correct sampler fails them with probability < 1e-12 per run, "
        "whatever number of random numbers the implementation consumes",
        "the reported measure for several start/goal pairs is the SUM of the hyperspheroid volumes (the code's "
        "documented promise), not the volume of their union",
    ]
    binary = build_harness("informed", needs_lib=True, opt="-O2")
    classes = set()

    # ---- 1. loops: model check + export
    rows = []
    model_bad = False
    for name, kinds, nset, kset, bset, costs, maxcalls in t["loops"]:
        res = run_tlc("samplers/InformedLoops", cfg=_cfg_loops("%s-%s" % (tier, name), kinds, nset, kset, bset, costs,
                                                               maxcalls), workers=1, timeout=3000, json_sink=rows.append)
        ck.tlc(res, "InformedLoops-" + name)
        if res.violated:
            log("[C15] note: TLC reports %s violated in the loop model" % res.violated)
            ck.set("model_violation_loops", res.violated)
            model_bad = True
    rows = [r for r in rows if "kind" in r]
    taken = {}
    for r in rows:
        for a in r["path"]:
            taken[a] = taken.get(a, 0) + 1
    # PDrawKeptInNoPhs only occurs for the degenerate set in the export run (Rounding = FALSE)
    idle = [a for a in ACTIONS if a not in taken]
    if idle and not model_bad:
        raise FrameworkError("vacuity gate: actions of InformedLoops never taken: %s" % idle)
    ck.set("loop_model_actions_taken", taken)
    outcomes = {(r["kind"], r.get("ov"), r.get("ret")) for r in rows if r["kind"] != "ordered"}
    lack = [(k, o, f) for k in ("direct", "rejection") for o in ("max", "minmax") for f in (True, False)
            if (k, o, f) not in outcomes]
    if lack and not model_bad:
        raise FrameworkError("vacuity gate: loop outcomes never enumerated: %s" % lack)
    # the known finding on the model: without the assumption "a drawn point lies strictly inside its PHS" the
    # first sentence fails (TLC must find the counterexample - the invariant has teeth)
    res = run_tlc("samplers/InformedLoops", cfg=_cfg_loops(tier + "-rounding", '{"direct"}', "{1, 2}", "{1, 2}", "{1}",
                                                           "{1}", 0, rounding=True, invariants="SuccessSound"),
                  workers=1, timeout=600, collect_json=False)
    if res.error:
        raise FrameworkError(res.error)
    ck.tlc(res, "InformedLoops-rounding")
    if res.violated != "SuccessSound":
        raise FrameworkError("the loop model with Rounding = TRUE no longer violates SuccessSound (known finding "
                             "sample:direct:SuccessBelowBound): model and code have to be re-aligned")
    ck.set("model_counterexample_of_known_finding", "SuccessSound violated with Rounding = TRUE (expected)")

    # ---- 2. scripted replay on the real classes + recorded attempt sequences
    rpath = os.path.join(WORK, "c15-rows.ndjson")
    vlib.write_ndjson(rpath, rows)
    tpath_r = os.path.join(WORK, "c15-replay-trace.ndjson")
    cpath = os.path.join(WORK, "c15-calls.ndjson")
    out, summ = _harness(ck, binary, ["replay", rpath, tpath_r, cpath, str(t["call_reps"])], "replay", t["timeout"])
    if summ:
        for k in ("rows", "replayed", "skipped_private_random", "loop_rows", "ordered_rows", "ties_served",
                  "returned_true", "returned_false", "recorded_calls", "coin_rejects", "kept", "kept_in_overlap",
                  "calls_true", "calls_false"):
            ck.set("replay_" + k, summ[k])
        ck.set("replay_per_kind", summ["per_kind"])
        ck.set("replay_exits", summ["exits"])
        ck.set("impl_drift_rows", summ["drift"])            # metric only: loop shape differs from the transcription
        ck.set("traces_replayed_on_impl", summ["replayed"])
        for d in _lines(out, "DRIFT")[:3]:
            log("[C15] drift (not a verdict): %s; row %s; observed %s" % (d["why"], json.dumps(d["row"])[:300],
                                                                         json.dumps(d["observed"])[:200]))
        ck.sample({"kind": "scripted loop row", "row": {k: v for k, v in rows[len(rows) // 50].items() if k != "path"}})
        # impl -> spec: the recorded attempt sequences are behaviours of the model
        acc, prefix, res = validate_trace("samplers/InformedLoopsTrace", cpath, timeout=1500)
        ck.tlc(res, "InformedLoopsTrace")
        ck.set("recorded_calls_accepted_by_model", bool(acc))
        if acc:
            ck.add("traces_validated_against_model", summ["recorded_calls"])
        else:
            ck.set("recorded_calls_drift", "not a behaviour of InformedLoops (violated: %s, TLC depth %s)"
                   % (res.violated, res.depth))
            log("[C15] drift (not a verdict): recorded attempt sequences are not behaviours of InformedLoops "
                "(violated %s)" % res.violated)
        calls = vlib.read_ndjson(cpath)
        ck.sample({"kind": "recorded attempt sequence", "call": {k: v for k, v in calls[len(calls) // 2].items()}})

    # ---- 3. the counting model of the multi-focus procedure, and its mutations
    for m, k, stepwise in t["multifocus"]:
        res = run_tlc("samplers/MultiFocus", cfg=_cfg_mf(m, k, "correct", stepwise), workers=vlib.NCPU, timeout=3000,
                      collect_json=False)
        ck.tlc(res, "MultiFocus-%d-%d" % (m, k))
        if res.violated:
            # the procedure itself is refuted on the cell model: a design-level finding
            rp = ck.replay_file("multifocus-%d-%d.txt" % (m, k), res.out[-6000:])
            ck.violation("multifocus:model:%s" % res.violated,
                         "the counting model of the multi-focus procedure violates %s for M=%d, KMax=%d" % (res.violated, m, k), rp)
    mutants = {}
    for variant, inv in (("nokeep", "Uniform"), ("uniformpick", "Uniform"), ("nokeep", "ExactValue"), ("keepfirst", MF_INVARIANTS)):
        res = run_tlc("samplers/MultiFocus", cfg=_cfg_mf(3, 2, variant, False, invariants=inv), workers=1, timeout=600,
                      collect_json=False)
        if res.error:
            raise FrameworkError(res.error)
        mutants["%s/%s" % (variant, inv.split()[0])] = res.violated or "accepted"
        ck.tlc(res, "MultiFocus-%s" % variant)
    ck.set("multifocus_model_mutations", mutants)
    if mutants["nokeep/Uniform"] != "Uniform" or mutants["uniformpick/Uniform"] != "Uniform" or \
            mutants["nokeep/ExactValue"] != "ExactValue" or mutants["keepfirst/OnlyTheUnion"] != "accepted":
        raise FrameworkError("vacuity gate: MultiFocus model mutations not judged as expected: %s" % mutants)

    # ---- 4. recorded observations of the real classes
    tpath = os.path.join(WORK, "c15-record-trace.ndjson")
    out, summ = _harness(ck, binary, ["record", tpath, tier, str(min(t["record_jobs"], vlib.NCPU))], "record", t["timeout"])
    if summ:
        ck.set("record_jobs", summ["jobs"])
        ck.set("record_events", summ["events"])

    # ---- 5. verdicts: TLC judges every observation against the contract
    events = []
    rejected = 0
    for label, p in (("replay", tpath_r), ("record", tpath)):
        if os.path.exists(p) and os.path.getsize(p) > 0:
            ev, n = _judge(ck, p, label, tier)
            events += ev
            rejected += n
    _count_nontrivial(ck, events, classes)
    ck.set("observations_rejected", rejected)
    ck.set("distinct_nontrivial", len(classes))
    hist = [e for e in events if e.get("e") == "Hist"]
    if hist:
        h = hist[0]
        ck.sample({"kind": "histogram", "name": h["name"], "bins": len(h["n_"]), "total": h["total"], "df": h["df"],
                   "first_bins": list(zip(h["n_"][:6], h["elo"][:6], h["ehi"][:6]))})
    smp = [e for e in events if e.get("e") == "Sample" and not e.get("src")]
    if smp:
        ck.sample({"kind": "recorded sampler class", "event": _scalars(smp[len(smp) // 3])})

    # ---- 6. vacuity gates (only meaningful when nothing was refused)
    ce = ck.cov.get("clause_evaluations", {})
    if not ck.violations and summ:
        need = ["SuccessInBounds", "SuccessBelowBound", "SuccessNotBelowLowerBound", "ReportedCostIsFocalSum",
                "ReturnsWithinAttemptBound", "returned_false", "degenerate_bound_calls", "SurfaceOnBoundary",
                "MeasureAnalytic", "measure_capped_by_space", "measure_uncapped_sampler", "MembershipRight_inside",
                "MembershipRight_outside", "Uniform_bins", "NoneExcluded_bins", "overlap_samples",
                "hist_phs_branch", "hist_whole-space_branch"]
        zero = [k for k in need if not ce.get(k)]
        if zero:
            raise FrameworkError("vacuity gate: clauses never evaluated non-trivially: %s" % zero)
        ex = ck.cov.get("replay_exits", {})
        missing = [a for a in REPLAY_EXITS if not ex.get(a)]
        if missing:
            raise FrameworkError("vacuity gate: loop exits never replayed on the real classes: %s" % missing)
        if not ck.cov.get("replay_coin_rejects") or not ck.cov.get("replay_kept_in_overlap"):
            raise FrameworkError("vacuity gate: recorded attempt sequences never saw the coin / an overlap")
        spaces = {e.get("space") for e in smp if sum(e["ret"])}
        kinds = {e.get("kind") for e in smp if sum(e["ret"])}
        if not {"Rn", "SE2", "SE3"} <= spaces or not set(FAMILY) <= kinds:
            raise FrameworkError("vacuity gate: sweeps without a successful sample: spaces %s kinds %s" % (spaces, kinds))
        if ck.cov.get("impl_drift_rows"):
            log("[C15] note: %d scripted rows were not followed by the code (drift metric)" % ck.cov["impl_drift_rows"])

    ck.set("rule", "every answer script of the samplers' attempt loops up to the attempt limit (inclusion count, coin, "
                   "bounds answer, cost class; batch feeds and bound sequences for the ordered sampler) replayed on the "
                   "real classes; every list of regions and bounds set on the cell universe of the counting model; "
                   "sampler kind x space x dimension x focal direction x focal distance x bound x bounds class x "
                   "number of starts/goals x attempt limit, drawn with the seed; distinct_nontrivial counts the "
                   "distinct configuration classes that produced at least one judged observation")
    return ck.finish()


# --------------------------------------------------------------------------------------------- replay
def replay(path):
    """Re-execute a replay artefact written by run()."""
    binary = build_harness("informed", needs_lib=True, opt="-O2")
    tmp = vlib.ensure_dir(os.path.join(WORK, "c15-replay"))
    if path.endswith(".ndjson"):
        reports = []
        acc, prefix, res = validate_trace("samplers/InformedContractTrace", path, json_sink=reports.append)
        print("consumed" if acc else "NOT consumed (stopped at %s)" % prefix, reports)
        return 1 if reports or not acc else 0
    obj = json.load(open(path))
    tp = os.path.join(tmp, "trace.ndjson")
    if "job" in obj:
        rc, out, err = run_cmd([binary, "one", obj.get("tier", "quick"), str(obj["job"])], timeout=3000,
                               env={"VERIF_SEED": str(obj.get("seed", 1))})
        lines = [l for l in out.splitlines() if l.startswith("{")]
        open(tp, "w").write("\n".join(lines) + "\n")
        for l in lines:
            print(json.dumps(_scalars(json.loads(l)))[:1500])
    elif obj.get("replay_rows"):
        t = _tier(obj.get("tier", "quick"))
        rows = []
        for name, kinds, nset, kset, bset, costs, maxcalls in t["loops"]:
            run_tlc("samplers/InformedLoops", cfg=_cfg_loops("replay-" + name, kinds, nset, kset, bset, costs, maxcalls),
                    workers=1, timeout=3000, json_sink=rows.append)
        rp = os.path.join(tmp, "rows.ndjson")
        vlib.write_ndjson(rp, [r for r in rows if "kind" in r])
        rc, out, err = run_cmd([binary, "replay", rp, tp, os.path.join(tmp, "calls.ndjson")], timeout=3000,
                               env={"VERIF_SEED": str(obj.get("seed", 1))})
        print(out[-3000:])
    else:
        print(json.dumps(obj, indent=1)[:3000])
        print("re-run ./check C15 to reproduce")
        return 1
    reports = []
    acc, prefix, res = validate_trace("samplers/InformedContractTrace", tp, json_sink=reports.append)
    seen = {r["line"]: r for r in reports if "line" in r}
    for r in seen.values():
        print("REFUSED line %d: %s" % (r["line"], r["failed"]))
    print("accepted" if acc and not seen else "REJECTED by InformedContract")
    return 1 if seen or not acc else 0


# --------------------------------------------------------------------------------------------- selftest
def selftest():
    """Binding demonstration without a rebuild of the library: one field of a recorded observation is corrupted
    by hand, several ways, and the contract must refuse exactly that line with the right clause; one recorded
    attempt sequence is corrupted and InformedLoopsTrace must reject it.  Source mutations are run with
    tools/mutate.py C15 mutants/C15/*.diff."""
    binary = build_harness("informed", needs_lib=True, opt="-O2")
    d = vlib.ensure_dir(os.path.join(WORK, "c15-selftest"))
    rows = []
    t = _tier("quick")
    name, kinds, nset, kset, bset, costs, maxcalls = t["loops"][0]
    run_tlc("samplers/InformedLoops", cfg=_cfg_loops("selftest", kinds, nset, kset, bset, costs, maxcalls), workers=1,
            timeout=3000, json_sink=rows.append)
    rp, tp, cp = os.path.join(d, "rows.ndjson"), os.path.join(d, "trace.ndjson"), os.path.join(d, "calls.ndjson")
    vlib.write_ndjson(rp, [r for r in rows if "kind" in r])
    rc, out, err = run_cmd([binary, "replay", rp, tp, cp], timeout=900)
    if rc != 0:
        raise FrameworkError("replay failed: " + (out + err)[-800:])
    rec = os.path.join(d, "rec.ndjson")
    rc, out, err = run_cmd([binary, "record", rec, "quick", "5"], timeout=900)
    if rc != 0:
        raise FrameworkError("record failed: " + (out + err)[-800:])
    ev = [e for e in vlib.read_ndjson(rec)]
    # keep the file small: a few events of every kind
    keep, per = [], {}
    for e in ev:
        if e.get("kind") == "direct-raised" or (e["e"] == "Sample" and (e.get("rg") == "coarse" or len(e["ret"]) > 2000)):
            continue            # the known findings are not part of the demonstration
        cls = e["e"] + (e.get("binning", "") if e["e"] == "Hist" else "")
        if per.get(cls, 0) < (40 if e["e"] == "Sample" else 3 if e["e"] == "Hist" else 6):
            per[cls] = per.get(cls, 0) + 1
            keep.append(e)
    ok = True

    def corrupt(label, pick, edit, clause):
        nonlocal ok
        a = copy.deepcopy(keep)
        i = next(k for k, e in enumerate(a) if pick(e))
        edit(a[i])
        p = os.path.join(d, "corrupt-%s.ndjson" % label)
        vlib.write_ndjson(p, a)
        reports = []
        acc, prefix, res = validate_trace("samplers/InformedContractTrace", p, json_sink=reports.append)
        got = {r["line"]: set(r["failed"]) for r in reports if "line" in r}
        good = acc and got == {i + 1: {clause}}
        print("selftest %-34s %s (line %d, TLC reported %s)" % (label, "ok" if good else "NOT DETECTED", i + 1, got))
        ok = ok and good

    p0 = os.path.join(d, "plain.ndjson")
    vlib.write_ndjson(p0, keep)
    reports = []
    acc, prefix, res = validate_trace("samplers/InformedContractTrace", p0, json_sink=reports.append)
    print("selftest %-34s %s" % ("unmodified recording", "accepted" if acc and not reports else "refused: %s" % reports))
    ok = ok and acc and not reports
    succ = lambda e: e["e"] == "Sample" and 1 in e["ret"]
    first = lambda e: e["ret"].index(1)
    corrupt("sample-out-of-bounds", succ, lambda e: e["inb"].__setitem__(first(e), 0), "SuccessInBounds")
    corrupt("sample-cost-at-bound", succ, lambda e: e["lt"].__setitem__(first(e), 0), "SuccessBelowBound")
    corrupt("sample-beyond-rounding", succ, lambda e: e["xlt"].__setitem__(first(e), 0), "SuccessBelowBoundCrossCheck")
    corrupt("sample-below-lower-bound", lambda e: succ(e) and e.get("hasmin"), lambda e: e["ge"].__setitem__(first(e), 0),
            "SuccessNotBelowLowerBound")
    corrupt("surface-off-by-2e-9", lambda e: e["e"] == "Surface", lambda e: e["err"].__setitem__(3, 2000), "SurfaceOnBoundary")
    corrupt("measure-off-by-1e-8", lambda e: e["e"] == "Measure", lambda e: e["err"].__setitem__(0, 10000), "MeasureAnalytic")
    corrupt("membership-flipped", lambda e: e["e"] == "InPhs" and e["in"], lambda e: e["in"].__setitem__(0, 1 - e["in"][0]),
            "MembershipRight")

    def skew(e):           # move 6 % of a well filled bin into its neighbour
        j = max(range(len(e["n_"]) - 1), key=lambda k: min(e["n_"][k], e["n_"][k + 1]))
        m = max(e["n_"][j] * 25 // 100, 1)
        e["n_"][j] -= m
        e["n_"][j + 1] += m
    corrupt("histogram-skewed", lambda e: e["e"] == "Hist" and e["binning"] == "shell", skew, "UniformPerBin")

    def empty(e):
        j = max(range(len(e["n_"])), key=lambda k: e["elo"][k])
        e["out"] = e["n_"][j]
        e["n_"][j] = 0
    h = copy.deepcopy(keep)
    i = next(k for k, e in enumerate(h) if e["e"] == "Hist")
    empty(h[i])
    p = os.path.join(d, "corrupt-excluded.ndjson")
    vlib.write_ndjson(p, h)
    reports = []
    validate_trace("samplers/InformedContractTrace", p, json_sink=reports.append)
    got = set().union(*[set(r["failed"]) for r in reports if r.get("line") == i + 1] or [set()])
    good = {"NoneExcluded", "OnlyTheRegion"} <= got
    print("selftest %-34s %s (%s)" % ("histogram-region-excluded", "ok" if good else "NOT DETECTED", sorted(got)))
    ok = ok and good
    corrupt("sampler-threw", lambda e: e["e"] == "Surface", lambda e: e.__setitem__("e", "Threw"), "Threw")
    # the recorded attempt sequences against the model
    calls = vlib.read_ndjson(cp)
    acc, prefix, res = validate_trace("samplers/InformedLoopsTrace", cp)
    print("selftest %-34s %s" % ("recorded attempt sequences", "accepted" if acc else "rejected"))
    ok = ok and acc
    for label, edit in (("call-extra-attempt", lambda c: c["att"].append([1, 1, 0, 1])),
                        ("call-wrong-return", lambda c: c.__setitem__("ret", 1 - c["ret"])),
                        ("call-coin-with-one-phs", lambda c: c["att"].__setitem__(0, [0, 0, 0, 1]))):
        a = copy.deepcopy(calls)
        i = next(k for k, c in enumerate(a) if c["K0"] == 1 and c["N"] >= 2 and len(c["att"]) >= 1 and k > 3)
        edit(a[i])
        p = os.path.join(d, "calls-%s.ndjson" % label)
        vlib.write_ndjson(p, a)
        acc, prefix, res = validate_trace("samplers/InformedLoopsTrace", p)
        print("selftest %-34s %s" % (label, "ok (rejected)" if not acc else "NOT DETECTED"))
        ok = ok and not acc
    shutil.rmtree(d, ignore_errors=True)
    return 0 if ok else 1
