"""C01 - geometric planners only report solution paths that are real.

spec -> impl: TLC enumerates every planning configuration of the 3x3 cell world up to symmetry
(specs/base/GridWorldEnum.tla, M3) and a bounded part of the 4x4 world; the harness instantiates
them for every registered planner in several state spaces under an evaluation budget.
impl -> spec: one Solve report per run (facts from an oracle independent of the planner) is
validated by TLC against specs/base/PlannerContract.tla, which also re-checks every path
against the abstract cell map (free 8-connected walk from the start cell, reachability).
"""
import json
import os
import random
import shutil
import vlib
import planrun
from vlib import Check, run_tlc, build_harness, validate_trace, FrameworkError, WORK, log

PID = "C01"
SPACES = ["R2", "SE2", "R3", "CMP", "SE3", "RS", "DUBINS"]
F_MT, F_SLOW = 1, 256


def enum_cases(ck, W, H, maxobst, name):
    d = vlib.ensure_dir(os.path.join(WORK, "cfg-c01"))
    cfg = os.path.join(d, name + ".cfg")
    open(cfg, "w").write("SPECIFICATION Spec\nCONSTANTS W = %d\n H = %d\n MaxObst = %d\nINVARIANTS ReachSound Emit\n"
                         % (W, H, maxobst))
    cases = []
    res = run_tlc("base/GridWorldEnum", cfg=cfg, workers=1, timeout=1800, json_sink=cases.append)
    ck.tlc(res, name)
    if res.violated:
        raise FrameworkError("GridWorld model inconsistent: %s" % res.violated)
    # TLC may evaluate the invariant more than once per state: deduplicate
    seen, out = set(), []
    for c in cases:
        k = json.dumps(c, sort_keys=True)
        if k not in seen:
            seen.add(k)
            out.append(c)
    return out


def klass(c):
    if not c["startFree"]:
        return "invalid-start"
    if not c["goalFree"]:
        return "invalid-goal"
    if c["same"]:
        return "same-cell"
    if not c["reachable"]:
        return "unreachable"
    return "reachable-%d" % min(len(c["obst"]), 5)


def budget_for(flags, rng):
    if flags & F_MT:   # worker threads share the evaluation count (some spin on the condition)
        return rng.choice([500, 3000, 6000])
    if flags & F_SLOW:  # batch planners spend ~1000 evaluations sampling before they search
        return rng.choice([3000, 12000])
    return rng.choice([0, 1, 5, 60, 400, 1500, 1500])


# ---- planner parameters: every declared parameter can take a non-default value (ParamSet range suggestions)
PARAM_SKIP = {"range", "thread_count", "num_threads", "num_planners", "planners",
              # structural GNAT parameters of STRIDE constrain each other (min <= degree <= max): not swept
              "degree", "min_degree", "max_degree", "max_pts_per_leaf", "estimated_dimension"}
PARAM_CHOICES = {  # sizes: small values only (a large batch only costs time)
    "num_samples": ["100", "300", "1000"], "samples_per_batch": ["10", "100", "200"],   # a batch of 1 restarts the
    "batch_size": ["10", "100", "200"],          # reverse search per sample: minutes, not a hang "number_sampling_attempts": ["10", "100"],
    "ordering_batch_size": ["1", "10", "100"], "max_failures": ["100", "1000"],
    "max_nearest_neighbors": ["8", "10", "20"], "set_max_num_goals": ["1", "2", "10"],
    "set_start_goal_pruning": ["1", "10", "50000"], "max_hybrid_paths": ["0", "2", "24"],
    "pruning_radius": ["0.05", "0.3", "3"], "selection_radius": ["0.1", "0.5", "5"],
    "inflation_scaling_parameter": ["1.0", "10", "100"], "initial_inflation_factor": ["1.0", "10", "1000000"],
    "truncation_scaling_parameter": ["1.0", "5", "100"], "radius_multiplier": ["0.5", "1", "1.1", "2"],
    "epsilon": ["0", "0.1", "0.4", "2"], "max_dist_near": ["0", "0.1", "1"],
    # SPARS: a large dense delta makes every iteration connect to most of the dense graph (minutes, not a hang)
    "dense_delta_fraction": ["0.0005", "0.001", "0.01"], "sparse_delta_fraction": ["0.1", "0.25", "0.5"],
    "stretch_factor": ["1.1", "2", "3"],
}


def param_values(q):
    """Admissible non-default values of one declared parameter, from its range suggestion."""
    name, rs = q["name"], q["range"]
    if name in PARAM_SKIP or not rs:
        return []
    if name in PARAM_CHOICES:
        return PARAM_CHOICES[name]
    if rs == "0,1":
        return ["0", "1"]
    parts = rs.split(":")
    try:
        lo, hi = float(parts[0]), float(parts[-1])
    except ValueError:
        return []
    if "." not in rs and len(parts) == 2:   # integer range a:b
        return [str(v) for v in range(int(lo), int(hi) + 1)][:8]
    return ["%g" % lo, "%g" % hi, "%g" % ((lo + hi) / 2), "%g" % (lo + (hi - lo) * 0.1), "%g" % (lo + (hi - lo) * 0.9)]


def sanitize_params(p, out):
    """Documented requirements between parameters (the setters log an error when they are broken: API misuse,
    not swept): informed sampling and sample rejection exclude each other; ordered sampling needs one of them;
    the pruned measure needs informed sampling and tree pruning; focus_search is a macro for three others."""
    dflt = {q["name"]: q["default"] for q in p.get("params", [])}

    def eff(n):
        return out.get(n, dflt.get(n, "0")) == "1"
    if "focus_search" in out:
        for n in ("informed_sampling", "tree_pruning", "new_state_rejection", "sample_rejection"):
            out.pop(n, None)
        if out["focus_search"] == "1":
            dflt.update({"informed_sampling": "1", "tree_pruning": "1", "new_state_rejection": "1"})
    if "informed_sampling" in dflt and "sample_rejection" in dflt and eff("informed_sampling") and eff("sample_rejection"):
        out.pop("sample_rejection", None)
        if eff("sample_rejection"):
            out["sample_rejection"] = "0"
    if "ordered_sampling" in dflt and "informed_sampling" in dflt and eff("ordered_sampling") \
            and not (eff("informed_sampling") or eff("sample_rejection")):
        out["ordered_sampling"] = "0"
    if "pruned_measure" in dflt and eff("pruned_measure") and not (eff("informed_sampling") and eff("tree_pruning")):
        out["pruned_measure"] = "0"
    return out


def pick_params(p, rng, prob=0.5):
    """With probability `prob` a run keeps every default; otherwise each declared parameter is moved with
    probability 1/2 to one of its admissible values."""
    out = {}
    if rng.random() < prob:
        return out
    for q in p.get("params", []):
        vals = param_values(q)
        if vals and rng.random() < 0.5:
            out[q["name"]] = rng.choice(vals)
    return sanitize_params(p, out)


def make_jobs(cases, planners, n_cases, spaces_per_case, rng, all_r2=False):
    by = {}
    for c in cases:
        by.setdefault(klass(c), []).append(c)
    chosen = []
    if n_cases >= len(cases):
        chosen = list(cases)
    else:
        keys = sorted(by)
        # stratified: round-robin over classes
        pools = {k: rng.sample(by[k], len(by[k])) for k in keys}
        while len(chosen) < n_cases:
            for k in keys:
                if pools[k] and len(chosen) < n_cases:
                    chosen.append(pools[k].pop())
    jobs = []
    for ci, c in enumerate(chosen):
        spaces = ["R2"] + [SPACES[1 + (ci * spaces_per_case + j) % (len(SPACES) - 1)] for j in range(spaces_per_case)]
        runs = []
        for sp in spaces:
            for p in planners:
                runs.append({"planner": p["name"], "space": sp,
                             "thr": rng.choice(["tiny", "tiny", "cell", "huge"]),
                             "range": rng.choice(["default", "default", "tiny", "huge"]),
                             "budget": budget_for(p["flags"], rng),
                             "seed": rng.randrange(1, 1 << 30),
                             "res": rng.choice([0.01, 0.01, 0.05]),
                             "query": rng.choice(["single"] * 5 + ["multistart", "goalstates", "region"]),
                             "params": pick_params(p, rng)})
        rng.shuffle(runs)
        # split so that shards balance
        for i in range(0, len(runs), 8):
            jobs.append({"case": c, "runs": runs[i:i + 8]})
    rng.shuffle(jobs)
    return jobs, chosen


def directional_jobs(cases, planners, n_cases, rng):
    """Non-reversible motions (Dubins): every planner that supports the space runs on reachable maps with
    obstacles under a budget that lets it connect - bidirectional direction-aware planners must validate
    goal-tree motions in the direction they are travelled."""
    pool = [c for c in cases if c["reachable"] and not c["same"] and 1 <= len(c["obst"]) <= 4]
    jobs = []
    for c in rng.sample(pool, min(n_cases, len(pool))):
        runs = [{"planner": p["name"], "space": "DUBINS", "thr": rng.choice(["tiny", "cell"]), "range": "default",
                 "budget": 6000 if p["flags"] & (F_MT | F_SLOW) else 2500, "seed": rng.randrange(1, 1 << 30), "res": 0.01,
                 "params": pick_params(p, rng)}
                for p in planners]
        for i in range(0, len(runs), 8):
            jobs.append({"case": c, "runs": runs[i:i + 8]})
    return jobs


def island_jobs(cases, planners, n_cases, rng):
    """Goals nobody can reach, several start / goal states: maps whose free space falls into separate components with
    the goal cell in another component than the start, queried with a GoalStates goal or several starts (the extra
    ones land in random cells, hence in different components).  No exact solution exists; planners that report
    approximate solutions must put together, from several start / goal PAIRS, one path whose flag, difference and
    last state still agree - the per-pair bookkeeping of roadmap planners is only exercised here."""
    F_APPROX = 32
    pool = [c for c in cases if c["startFree"] and c["goalFree"] and not c["reachable"] and not c["same"] and len(c["obst"]) <= 5]
    jobs = []
    for c in rng.sample(pool, min(n_cases, len(pool))):
        runs = []
        for p in planners:
            if not p["flags"] & F_APPROX:
                continue
            for q in ("goalstates", "multistart"):
                runs.append({"planner": p["name"], "space": rng.choice(["R2", "R2", "SE2", "R3"]), "thr": rng.choice(["tiny", "cell"]),
                             "range": rng.choice(["default", "default", "tiny"]),
                             "budget": rng.choice([3000, 6000]) if p["flags"] & (F_MT | F_SLOW) else rng.choice([400, 1500]),
                             "seed": rng.randrange(1, 1 << 30), "res": 0.01, "query": q, "apart": rng.random() < 0.75,
                             "params": pick_params(p, rng, prob=0.7)})
        rng.shuffle(runs)
        for i in range(0, len(runs), 8):
            jobs.append({"case": c, "runs": runs[i:i + 8]})
    return jobs


def flip_jobs(cases, planners, n_maps, rng):
    """Every declared on/off parameter of every planner, flipped alone to its non-default value, on maps that need
    a way round obstacles, under a budget that lets the planner work (rewire, prune, connect) - the branches a
    default configuration never takes."""
    pool = [c for c in cases if c["reachable"] and not c["same"] and 2 <= len(c["obst"]) <= 5]
    jobs = []
    for p in planners:
        flips = []
        for q in p.get("params", []):
            if q["range"] == "0,1" and q["name"] not in PARAM_SKIP:
                v = "0" if q["default"] in ("1", "true") else "1"
                out = sanitize_params(p, {q["name"]: v})
                if out.get(q["name"]) == v:
                    flips.append(out)
        for out in flips:
            for c in rng.sample(pool, min(n_maps, len(pool))):
                jobs.append({"case": c, "runs": [{
                    "planner": p["name"], "space": rng.choice(["R2", "R2", "SE2"]), "thr": rng.choice(["tiny", "cell"]),
                    "range": rng.choice(["default", "default", "tiny"]),
                    "budget": 6000 if p["flags"] & (F_MT | F_SLOW) else rng.choice([1500, 4000]),
                    "seed": rng.randrange(1, 1 << 30), "res": 0.01, "query": "single", "params": dict(out)}]})
    return jobs


def judge(ck, trace, label):
    rows = vlib.read_ndjson(trace)
    bad = []
    acc, prefix, res = validate_trace("base/PlannerContractTrace", trace, timeout=3000, json_sink=bad.append)
    if not acc:
        raise FrameworkError("planner trace not consumed to the end (line %s): %s" % (prefix, res.out[-1500:]))
    seen = set()
    nviol = 0
    for b in bad:
        if b["line"] in seen:
            continue
        seen.add(b["line"])
        r = rows[b["line"] - 1]
        for clause in sorted(b["failed"]):
            key = "%s:%s" % (r.get("planner", "?"), clause)
            if r.get("query", "single") != "single":
                key += ":" + r["query"]   # several starts / goal states / non-sampleable region
            if r.get("space") == "DUBINS":
                key += ":dubins"          # non-reversible motions, non-unique shortest curves
            rp = ck.replay_file("run-%s-%d.json" % (label, b["line"]), json.dumps(r, indent=1))
            if ck.violation(key, "planner %s in %s on map obst=%s start=%s goal=%s (thr=%s range=%s budget=%s seed=%s): "
                            "status %s, contract clause '%s' fails" %
                            (r.get("planner"), r.get("space"), r.get("obst"), r.get("start"), r.get("goal"), r.get("thr"),
                             r.get("range"), r.get("budget"), r.get("seed"), r.get("status", r.get("e")), clause), rp):
                nviol += 1
    return rows


def run(tier):
    ck = Check(PID, tier, "exploration")
    ck.assumptions += [
        "grid worlds of unit cells in 2-D/3-D spaces; resolution 1-5% of the extent, far below the cell size",
        "the oracle trusts StateSpace::interpolate/distance (C06/C07) and the harness's own validity predicate",
        "GoalState goals with tiny / half-cell / huge thresholds; evaluation-count budgets (no wall clock)",
    ]
    binary = build_harness("planners", needs_lib=True)
    rng = random.Random(vlib.seed() * 7919 + 17)
    import subprocess
    planners = json.loads(subprocess.run([binary, "list"], capture_output=True, text=True).stdout)
    cases3 = enum_cases(ck, 3, 3, 9, "world3x3")
    if len(cases3) < 5000:
        raise FrameworkError("vacuity gate: 3x3 enumeration produced only %d configurations" % len(cases3))
    ck.set("configurations_3x3_up_to_symmetry", len(cases3))
    classes = {}
    for c in cases3:
        classes[klass(c)] = classes.get(klass(c), 0) + 1
    ck.set("configuration_classes", classes)
    if tier == "quick":
        jobs, chosen = make_jobs(cases3, planners, 36, 1, rng)
        jobs += directional_jobs(cases3, planners, 8, rng)
        jobs += island_jobs(cases3, planners, 8, rng)
        jobs += flip_jobs(cases3, planners, 6, rng)
    else:
        cases4 = enum_cases(ck, 4, 4, 3, "world4x4")
        ck.set("configurations_4x4_up_to_symmetry", len(cases4))
        # (sized for about an hour on 16 cores: every run is its own process and parameters are swept)
        j3, c3 = make_jobs(cases3, planners, 250, 1, rng)
        j4, c4 = make_jobs(cases4, planners, 40, 2, rng)
        jobs, chosen = j3 + j4 + directional_jobs(cases3, planners, 30, rng) + island_jobs(cases3 + cases4, planners, 40, rng) + flip_jobs(cases3 + cases4, planners, 12, rng), c3 + c4
    jpath = os.path.join(WORK, "c01-jobs.ndjson")
    vlib.write_ndjson(jpath, jobs)
    trace, total, notes = planrun.run_sharded(binary, "c01", jpath, os.path.join(WORK, "c01-trace"))
    for n in notes:
        log("[C01] " + n)
    rows = judge(ck, trace, tier)
    solves = [r for r in rows if r.get("e") == "Solve"]
    ck.set("evaluations", len(rows))
    distinct = set()
    status_count = {}
    per_planner = {}
    for r in solves:
        status_count[r["status"]] = status_count.get(r["status"], 0) + 1
        per_planner[r["planner"]] = per_planner.get(r["planner"], 0) + 1
        if r["obst"] and r["start"] != r["goal"]:
            distinct.add((r["planner"], r["space"], tuple(r["obst"]), r["start"], r["goal"], r["thr"], r["range"], r["W"]))
    ck.set("distinct_nontrivial", len(distinct))
    ck.set("rule", "configurations enumerated by TLC (GridWorldEnum, all 3x3 layouts x start x goal up to symmetry; "
                   "stratified sample per tier) x every registered planner x state space x threshold/range/resolution "
                   "class x seed; a run is non-trivial when the map has obstacles and start != goal; distinct by "
                   "(planner, space, map, start, goal, threshold class, range class)")
    ck.set("status_counts", status_count)
    ck.set("runs_per_planner", per_planner)
    ck.set("planners", len(per_planner))
    ck.set("solutions_examined", sum(len(r["sols"]) for r in solves))
    if len(per_planner) < 35 or status_count.get("EXACT", 0) < 50 or status_count.get("APPROXIMATE", 0) < 5:
        raise FrameworkError("vacuity gate: too few planners / solution statuses exercised: %s %s" % (len(per_planner), status_count))
    for r in solves[:3]:
        ck.sample({k: r[k] for k in ("planner", "space", "obst", "start", "goal", "thr", "range", "budget", "status", "nAfter")})
    return ck.finish()


def replay(path):
    """path: a recorded run report (run-*.json).  Re-runs that single configuration in a fresh
    process and validates the new report; also re-validates the recorded one."""
    r = json.load(open(path))
    binary = build_harness("planners", needs_lib=True)
    d = vlib.ensure_dir(os.path.join(WORK, "replay", PID))
    rec = os.path.join(d, "recorded.ndjson")
    vlib.write_ndjson(rec, [r])
    rc = 0
    for label, tr in (("recorded", rec),):
        bad = []
        validate_trace("base/PlannerContractTrace", tr, json_sink=bad.append)
        print(label, "report:", "REJECTED %s" % bad[0]["failed"] if bad else "accepted")
        rc |= 1 if bad else 0
    if r.get("e") in ("Solve", "Hang", "Crash"):
        case = {"W": r["W"], "H": r["H"], "obst": r["obst"], "start": r["start"], "goal": r["goal"]}
        run = {"planner": r["planner"], "space": r["space"], "thr": r["thr"], "range": r["range"],
               "budget": r["budget"], "seed": r["seed"], "res": r.get("resFrac", 10000) / 1e6,
               "query": r.get("query", "single"), "params": r.get("params", {}), "apart": r.get("apart", False)}
        jp = os.path.join(d, "job.ndjson")
        vlib.write_ndjson(jp, [{"case": case, "runs": [run]}])
        out = os.path.join(d, "rerun.ndjson")
        planrun.run_shard(binary, "c01", jp, out, 0, 1)
        bad = []
        validate_trace("base/PlannerContractTrace", out, json_sink=bad.append)
        print("re-run report:", "REJECTED %s" % bad[0]["failed"] if bad else "accepted")
        rc |= 1 if bad else 0
    return rc
