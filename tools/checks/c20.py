"""C20 - a fixed seed reproduces single-threaded planning bit for bit.

Protocol half (model checking): specs/base/SeedGen.tla transcribes the process-global seed
generator; TLC checks IthSeedDependsOnlyOnSeedAndI over every call history and emits the
histories; each is executed in its own fresh process and the concrete values are validated by
TLC (Determinism.tla: same abstract <<seed, i>> => same value, across processes).
specs/base/RngStream.tla models one RNG with its distribution caches; TLC checks
ReseedReproduces and emits every pre-draws / reseed / post-draws scenario, replayed bitwise.

Planner half: for every single-threaded planner x problem x evaluation budget x seed the same
command line is run in two separate processes (different ASLR / heap); the complete outcomes
(status, evaluation count, hash of every state handed to the validity checker, solution bit
patterns) are observations validated by TLC against Determinism.tla.
"""
import concurrent.futures
import json
import os
import random
import subprocess
import vlib
import c01
from vlib import Check, run_tlc, run_cmd, build_harness, validate_trace, FrameworkError, WORK, log

PID = "C20"
F_MT, F_SLOW = 1, 256
PROBLEMS = [(3, 3, [4], 0, 8), (3, 3, [1, 4], 0, 2), (4, 4, [5, 6, 9], 0, 15), (3, 3, [1, 3, 4], 8, 0)]


def _cfg(name, body):
    d = vlib.ensure_dir(os.path.join(WORK, "cfg-c20"))
    p = os.path.join(d, name + ".cfg")
    open(p, "w").write(body)
    return p


def _dedup(objs):
    seen, out = set(), []
    for o in objs:
        k = json.dumps(o, sort_keys=True)
        if k not in seen:
            seen.add(k)
            out.append(o)
    return out


def seed_protocol(ck, tier, rngbin):
    maxlen = 4 if tier == "quick" else 5
    hs = []
    res = run_tlc("base/SeedGen", cfg=_cfg("seedgen", "SPECIFICATION Spec\nCONSTANTS Seeds = {0, 1, 2}\n MaxLen = %d\n"
                                            "INVARIANTS IthSeedDependsOnlyOnSeedAndI ReportedSeedIsTheSeed Emit\n" % maxlen),
                  workers=1, timeout=1200, json_sink=hs.append)
    ck.tlc(res, "seedgen")
    if res.violated:
        ck.violation("seedgen-model:" + res.violated, "seed generator (as transcribed) violates %s" % res.violated,
                     ck.replay_file("seedgen-model.txt", res.out[-3000:]))
        return
    hs = _dedup(hs)
    if len(hs) < 5 ** maxlen // 2:
        raise FrameworkError("vacuity gate: only %d seed-generator histories emitted" % len(hs))
    obs = []

    def one(h):
        rc, out, err = run_cmd([rngbin, "seedgen", json.dumps(h["hist"])], timeout=120)
        if rc != 0:
            return h, None, (out + err)[-300:]
        return h, json.loads(out.strip().splitlines()[-1])["rets"], None

    with concurrent.futures.ThreadPoolExecutor(max_workers=max(2, vlib.NCPU)) as ex:
        for h, rets, errtxt in ex.map(one, hs):
            if rets is None:
                obs.append({"e": "Crash", "what": errtxt})
                continue
            for c, r in zip(h["hist"], rets):
                if c["op"] == "NewRNG" and c["ret"][0] != "\"time\"" and "time" not in c["ret"][0]:
                    obs.append({"e": "Obs", "key": "local-seed<<%s,%d>>" % (c["ret"][0], c["ret"][1]), "val": r})
                elif c["op"] == "GetSeed" and "time" not in c["ret"][0] and h["premise"]:
                    obs.append({"e": "Obs", "key": "getSeed=%s" % c["ret"][0].strip('"'), "val": "-"})
                    obs.append({"e": "Obs", "key": "getSeed=%s" % c["ret"][0].strip('"'),
                                "val": "-" if r == c["ret"][0].strip('"') else "reported " + r})
    tp = os.path.join(WORK, "c20-seedgen.ndjson")
    vlib.write_ndjson(tp, obs)
    _judge(ck, tp, "seedgen")
    ck.add("traces_validated_against_impl", len(hs))
    ck.set("seed_histories_in_fresh_processes", len(hs))
    ck.set("distinct_abstract_local_seeds", len({o["key"] for o in obs if o.get("key", "").startswith("local")}))
    ck.sample({"kind": "seed-generator history", "hist": [c["op"] + ("(%d)" % c["arg"] if c["op"] == "SetSeed" else "") for c in hs[len(hs) // 2]["hist"]]})


def stream(ck, tier, rngbin):
    kinds = '{"u01", "int", "gauss", "halfnormal", "quat", "sphere2", "sphere3", "ball3", "bool"}'
    pre, post = (2, 2) if tier == "quick" else (3, 3)
    scs = []
    res = run_tlc("base/RngStream", cfg=_cfg("stream", "SPECIFICATION Spec\nCONSTANTS Kinds = %s\n MaxPre = %d\n MaxPost = %d\n"
                                             " ResetCaches = TRUE\nINVARIANTS ReseedReproduces Emit\n" % (kinds, pre, post)),
                  workers=1 if tier == "quick" else 1, timeout=2400, json_sink=scs.append)
    ck.tlc(res, "rngstream")
    if res.violated:
        ck.violation("rngstream-model:" + res.violated, "RNG reseeding (as transcribed) violates %s" % res.violated,
                     ck.replay_file("rngstream-model.txt", res.out[-3000:]))
        return
    # the stale-cache variant must be seen by TLC (the model is sensitive to what the property is about)
    res2 = run_tlc("base/RngStream", cfg=_cfg("stream-stale", "SPECIFICATION Spec\nCONSTANTS Kinds = %s\n MaxPre = 2\n MaxPost = 2\n"
                                              " ResetCaches = FALSE\nINVARIANTS ReseedReproduces\n" % kinds), workers=1, timeout=600)
    if res2.error or res2.violated != "ReseedReproduces":
        raise FrameworkError("vacuity gate: model without cache reset does not violate ReseedReproduces")
    scs = _dedup(scs)
    sp = os.path.join(WORK, "c20-stream.ndjson")
    vlib.write_ndjson(sp, scs)
    rc, out, err = run_cmd([rngbin, "stream", sp], timeout=1200)
    summ = None
    for line in out.splitlines():
        if line.startswith("SUMMARY "):
            summ = json.loads(line[8:])
    if summ is None:
        raise FrameworkError("rng stream replay failed: " + (out + err)[-800:])
    ck.add("traces_validated_against_impl", summ["scenarios"])
    ck.set("reseed_scenarios", summ["scenarios"])
    if summ["failures"]:
        first = json.loads([l for l in out.splitlines() if l.startswith("FAIL ")][0][5:])
        kinds_used = "+".join(first["scenario"]["pre"]) + "|" + "+".join(first["scenario"]["post"])
        ck.violation("reseed:" + first["why"].split("'")[1] if "'" in first["why"] else "reseed:state",
                     "%d reseed scenarios differ from a fresh generator; first: pre=%s post=%s: %s" %
                     (summ["failures"], first["scenario"]["pre"], first["scenario"]["post"], first["why"]),
                     ck.replay_file("reseed-scenario.json", json.dumps(first, indent=1)))
    else:
        ck.sample({"kind": "reseed scenario", "scenario": scs[len(scs) // 3]})


def planners_twice(ck, tier, binary):
    rng = random.Random(vlib.seed() * 2246822519 + 11)
    planners = [p for p in json.loads(subprocess.run([binary, "list"], capture_output=True, text=True).stdout)
                if not p["flags"] & F_MT]
    jobs = []
    nper = 2 if tier == "quick" else 10
    for p in planners:
        for i in range(nper):
            W, H, obst, s, g = rng.choice(PROBLEMS)
            slow = p["flags"] & F_SLOW
            # every planner also runs on the lattice space (LAT: samplers hand out quarter-cell lattice points only):
            # exact distance ties and repeated states are the rule there, so every tie-break in nearest-neighbour
            # structures, queues and sorts is exercised - a source of randomness outside ompl::RNG (or an order that
            # depends on addresses) only shows where something ties
            lattice = i % 2 == 1
            jobs.append({"planner": p["name"], "W": W, "H": H, "obst": obst, "start": s, "goal": g,
                         "seed": rng.randrange(1, 1 << 30),
                         "budget": rng.choice([3000, 6000]) if slow else rng.choice([300, 900, 2500] if lattice else [5, 60, 300, 900]),
                         "thr": rng.choice([0.0, 0.4]), "solves": rng.choice([1, 1, 2]),
                         "space": "LAT" if lattice else rng.choice(["R2", "R2", "SE2", "R3"]),
                         "objective": rng.choice(["", "length"]),
                         "params": c01.pick_params(p, rng, prob=0.5)})
            if lattice and any(q["name"] == "range" for q in p.get("params", [])) and rng.random() < 0.7:
                # short motions: the tree grows to hundreds of nodes before it reaches the goal (GNAT nodes split
                # beyond 50 elements; only then the child visiting order matters)
                jobs[-1]["params"]["range"] = rng.choice(["0.2", "0.25", "0.5"])

    def one(args):
        j, rep = args
        rc, out, err = run_cmd([binary, "c20one", json.dumps(j)], timeout=1200)
        for line in out.splitlines():
            if line.startswith("OBS "):
                return j, rep, json.loads(line[4:]), None
        return j, rep, None, "rc=%s %s" % (rc, (out + err)[-300:])

    obs = []
    work = [(j, r) for j in jobs for r in (1, 2)]
    with concurrent.futures.ThreadPoolExecutor(max_workers=max(2, vlib.NCPU - 2)) as ex:
        for j, rep, o, errtxt in ex.map(one, work):
            key = "%s|%s|%dx%d%s|%d>%d|seed%d|k%d|thr%s|x%d|%s" % (j["planner"], j["space"], j["W"], j["H"], j["obst"], j["start"],
                                                                  j["goal"], j["seed"], j["budget"], j["thr"], j["solves"], j["objective"])
            if o is None:
                obs.append({"e": "Hang" if "HANG" in (errtxt or "") else "Crash", "key": key, "what": errtxt})
                continue
            if not o["seedTookEffect"]:
                obs.append({"e": "Obs", "key": "seed-set-before-any-generator", "val": "yes"})
                obs.append({"e": "Obs", "key": "seed-set-before-any-generator", "val": "no: " + j["planner"]})
            obs.append({"e": "Obs", "key": key, "val": o["val"]})
    tp = os.path.join(WORK, "c20-planners.ndjson")
    vlib.write_ndjson(tp, obs)
    _judge(ck, tp, "planner")
    ck.add("traces_validated_against_impl", len(jobs))
    ck.set("planner_run_pairs", len(jobs))
    ck.set("single_threaded_planners", len(planners))
    nontrivial = sum(1 for o in obs if o["e"] == "Obs" and ("EXACT" in o["val"] or "APPROX" in o["val"]))
    ck.set("runs_with_solution", nontrivial)
    if len(planners) < 30 or nontrivial < len(jobs):
        raise FrameworkError("vacuity gate: %d planners, %d solution-bearing runs of %d" % (len(planners), nontrivial, 2 * len(jobs)))
    ck.sample({"kind": "planner run observed twice", "key": obs[0].get("key"), "val": obs[0].get("val")})


def _judge(ck, tp, label):
    rows = vlib.read_ndjson(tp)
    bad = []
    acc, prefix, res = validate_trace("base/Determinism", tp, timeout=2400, json_sink=bad.append)
    if not acc:
        raise FrameworkError("determinism trace not consumed: " + res.out[-1000:])
    seen = set()
    for b in bad:
        if b["line"] in seen:
            continue
        seen.add(b["line"])
        r = rows[b["line"] - 1]
        others = [x for x in rows if x.get("key") == r.get("key")]
        k = r.get("key", "?")
        short = k.split("|")[0] if label == "planner" else k
        rp = ck.replay_file("%s-%d.json" % (label, b["line"]), json.dumps(others, indent=1))
        ck.violation("%s:%s:%s" % (label, short, sorted(b["failed"])[0]),
                     "%s: observations with the same key differ between processes: %s -> %s" %
                     (label, k, [x.get("val", x.get("what")) for x in others][:3]), rp)


def run(tier):
    ck = Check(PID, tier, "model_checking")
    ck.assumptions += ["same binary, same machine, separate processes (cross-platform reproducibility not claimed)",
                       "RNG::setSeed(s > 0) precedes creation of any RNG (the property's premise); single-threaded planners only",
                       "termination condition depends only on the number of evaluations"]
    rngbin = build_harness("rng", needs_lib=True)
    binary = build_harness("planners", needs_lib=True)
    seed_protocol(ck, tier, rngbin)
    stream(ck, tier, rngbin)
    planners_twice(ck, tier, binary)
    # control planners (the property quantifies over geometric, control and multilevel planners)
    import c20_control
    c20_control.control_twice(ck, tier)
    return ck.finish()


def replay(path):
    rows = json.load(open(path))
    tp = os.path.join(vlib.ensure_dir(os.path.join(WORK, "replay", PID)), "obs.ndjson")
    vlib.write_ndjson(tp, rows)
    bad = []
    validate_trace("base/Determinism", tp, json_sink=bad.append)
    print("recorded observations:", "REJECTED" if bad else "accepted")
    return 1 if bad else 0
