"""C08 - bound enforcement and every sampler keep states inside the space.

1. TLC model-checks specs/base/BoundsAlgebra.tla (enforceBounds / satisfiesBounds of every space
   transcribed on exact lattices: no-op in bounds, result in bounds, idempotent, faithful) and
   dumps every lattice input with the expected result; harness/bounds.cpp replays each on the real
   spaces and logs what it observed.
2. TLC enumerates every answer sequence of the valid-state samplers' attempt loops
   (specs/base/AttemptLoops.tla) with the expected return flag and returned draw; the harness
   serves each sequence through its own StateValidityChecker to the real samplers.
3. The harness records the outputs of every state sampler (space x bound setting x centre class x
   distance class x seed), of the valid-state samplers over grid worlds, and enforceBounds on
   off-lattice inputs.  Spaces without a lattice model are covered here only: Owen / Vana / VanaOwen,
   SpaceTime (bounded and unbounded time), EmptyStateSpace, and the projected / atlas / tangent-bundle
   spaces over R^3 with the unit sphere as constraint (centres on the sphere).
4. All logged observations are validated by TLC against the contract (specs/base/SamplerTrace.tla):
   that is where verdicts come from.
"""
import json
import os
import shutil
import vlib
from vlib import Check, run_tlc, run_cmd, build_harness, validate_trace, FrameworkError, WORK, log

PID = "C08"
KINDS = ["uniform", "gaussian", "obstacle", "bridge", "maxclear", "minclear"]
LAWS = ["ResultInBounds", "NoOpInBounds", "Idempotent", "Faithful"]
ACTIONS = ["UniformDraw", "GaussFirst", "GaussSecond", "BridgeFirst", "BridgeEndpoint", "BridgeMid", "ObstFindInvalid",
           "ObstFindValid", "ObstMotionInterior", "ObstMotionEnd", "MaxDraw", "MaxImprove"]

# case classes the lattice replay must reach (measured by the harness from inputs and real bounds)
REQUIRED_CLASSES = [
    "RV1/RV:above", "RV1/RV:below", "RV1/RV:at-lo", "RV1/RV:at-hi", "RV1/RV:far-above", "RV1/RV:zw-at",
    "RV1/RV:zw-above", "RV1/RV:zw-far-below", "RV1/RV:huge-far-above", "RV1/RV:huge-at-hi", "RV1/RV:neg-below",
    "SO2/SO2:nofmod:minus2pi:exact+pi", "SO2/SO2:nofmod:keep:exact-pi", "SO2/SO2:fmod:plus2pi",
    "SO2/SO2:fmod:minus2pi", "SO2/SO2:fmod:keep", "SO2/SO2:nofmod:plus2pi",
    "SO3/SO3:zero", "SO3/SO3:tiny", "SO3/SO3:shrink", "SO3/SO3:grow", "SO3/SO3:norm-underflow",
    "Time/Time:above", "Time/Time:zw-at", "Time/Time:huge-far-below", "Disc/Disc:zw-at", "Disc/Disc:neg-above",
    "SE2/SO2:nofmod:minus2pi:exact+pi", "SE3/SO3:zero", "Nested/Disc:above", "Wrapper/SO2:fmod:plus2pi",
    "Torus/SO2:fmod:minus2pi", "Sphere/RV:above", "Klein/RV:below", "Mobius/RV:at-hi",
]
# spaces without a lattice model whose samplers and enforceBounds the recording must have driven (prefix of the
# recorded space name): 3-D Dubins airplane spaces, space-time, the empty space, constrained spaces over R^3
REQUIRED_RECORDED = ["Owen/", "Vana/", "VanaOwen/", "SpaceTime/", "Empty", "ProjectedSphere/", "AtlasSphere/",
                     "TangentBundleSphere/"]


def _tier(tier):
    """attempt_runs: (config name, kinds, AttemptsSet, NDSet, ImproveSet, Clearances) per TLC enumeration; the
    clearance-maximising sampler has 2 x |Clearances| outcomes per query, so its limits are smaller."""
    if tier == "quick":
        return dict(ext=3, periods=2, thorough=False, script_seeds=3, record_seeds=50,
                    attempt_runs=[("all", KINDS, "{1, 2, 3}", "{1, 2, 3}", "{0, 1, 2}", "{1, 2, 3}")])
    others = [k for k in KINDS if k != "maxclear"]
    return dict(ext=6, periods=6, thorough=True, script_seeds=6, record_seeds=500,
                attempt_runs=[("loops", others, "{1, 2, 3, 4, 5, 6}", "{1, 2, 3, 4, 5}", "{0}", "{0, 1, 2, 3}"),
                              ("maxclear", ["maxclear"], "{1, 2, 3, 4}", "{1}", "{0, 1, 2, 3}", "{1, 2, 3}")])


def _cfg_bounds(t):
    d = vlib.ensure_dir(os.path.join(WORK, "cfg-c08"))
    p = os.path.join(d, "BoundsAlgebra-%d-%d-%s.cfg" % (t["ext"], t["periods"], t["thorough"]))
    open(p, "w").write("\n".join([
        "SPECIFICATION Spec", "CONSTANTS", "  Ext = %d" % t["ext"], "  Periods = %d" % t["periods"],
        "  Thorough = %s" % ("TRUE" if t["thorough"] else "FALSE"),
        "INVARIANT ResultInBounds", "PROPERTIES NoOpInBounds Idempotent ResultFaithful",
        "ACTION_CONSTRAINT Dump"]) + "\n")
    return p


def _cfg_attempts(name, kinds, attempts, nds, improve, clr):
    d = vlib.ensure_dir(os.path.join(WORK, "cfg-c08"))
    p = os.path.join(d, "AttemptLoops-%s.cfg" % name)
    open(p, "w").write("\n".join([
        "SPECIFICATION Spec", "CONSTANTS",
        "  Kinds = {%s}" % ", ".join('"%s"' % k for k in kinds),
        "  AttemptsSet = " + attempts, "  NDSet = " + nds, "  ImproveSet = " + improve,
        "  Clearances = " + clr, "  MinClr = 2",
        "INVARIANTS SuccessIsValid Bounded UniformRule GaussianRule BridgeRule ObstacleRule MaxClearRule "
        "MinClearRule EmitDone"]) + "\n")
    return p


def _lines(out, tag):
    return [json.loads(l[len(tag) + 1:]) for l in out.splitlines() if l.startswith(tag + " ")]


def _harness(ck, binary, args, label, timeout=3000):
    """Run one harness mode; a crash / sanitizer abort is a finding, a usage error is ours."""
    rc, out, err = run_cmd([binary] + args, timeout=timeout)
    summ = _lines(out, "SUMMARY")
    if rc == 0 and summ:
        return out, summ[0]
    if rc in (70, 77, 78) or rc < 0 or "CRASH" in out:
        rp = ck.replay_file("crash-%s.txt" % label, (out + "\n" + err)[-4000:])
        ck.violation("crash:" + label, "bounds harness crashed in %s: %s" % (label, (out + err)[-600:]), rp)
        return out, None
    raise FrameworkError("bounds harness %s failed (rc=%s): %s" % (label, rc, (out + err)[-2000:]))


# ------------------------------------------------------------------ describing rejected events
def _first_bad(ev):
    """(key suffix, index, text) for the first entry of a rejected event that breaks the contract.
    Only used to describe what TLC rejected."""
    e = ev.get("e")
    if e in ("Enforce", "EnforceOff"):
        n = len(ev["inb0"])
        for law in LAWS:
            for i in range(n):
                bad = (law == "ResultInBounds" and ev["inb1"][i] != 1) or \
                      (law == "NoOpInBounds" and ev["inb0"][i] == 1 and ev["same1"][i] != 1) or \
                      (law == "Idempotent" and ev["same2"][i] != 1) or \
                      (law == "Faithful" and e == "Enforce" and ev["match"][i] != 1)
                if bad:
                    return law, i, "input #%d of %d breaks %s" % (i + 1, n, law)
        return "malformed", -1, "malformed record"
    if e == "Sample":
        for i, f in enumerate(ev["in"]):
            if f != 1:
                return "out-of-bounds", i, "output #%d of %d is out of bounds" % (i + 1, len(ev["in"]))
        return "malformed", -1, "empty or malformed record"
    if e == "Valid":
        for i, r in enumerate(ev["ret"]):
            if r == 1 and ev["val"][i] != 1:
                return "returned-invalid-state", i, "call #%d returned success with an invalid state" % (i + 1)
        for i, r in enumerate(ev["ret"]):
            if r == 1 and ev["inb"][i] != 1:
                return "returned-out-of-bounds", i, "call #%d returned success with an out-of-bounds state" % (i + 1)
        return "malformed", -1, "empty or malformed record"
    return "rejected", -1, "event not allowed by the contract"


def _report(ck, ev, label, details):
    e = ev.get("e")
    what, i, text = _first_bad(ev)
    rp_obj = {"event": {k: v for k, v in ev.items() if not isinstance(v, list)}, "entry": i}
    if e == "Enforce":
        # one key per law broken in this setting, described by the harness's first example
        found = False
        for d in details:
            if d.get("setting") == ev["name"]:
                found = True
                rp = ck.replay_file("enforce-%s-%s.json" % (ev["name"], d["law"]),
                                    json.dumps({"enforce_case": {"sid": d["sid"], "x": d["x"], "y": d["y"]},
                                                "tier": ck.tier, "detail": d}, indent=1))
                ck.violation(d["key"], "enforceBounds on %s: %d lattice input(s) break %s; e.g. input %s -> %s -> %s (%s)"
                             % (ev["name"], d["count"], d["law"], json.dumps(d["input"]), json.dumps(d["after_enforce"]),
                                json.dumps(d["after_second"]), d.get("why") or d["class"]), rp)
        if not found:
            rp = ck.replay_file("enforce-%s.json" % ev["name"], json.dumps(rp_obj, indent=1))
            ck.violation("enforce:%s:%s" % (ev["name"], what), "enforceBounds on %s: %s" % (ev["name"], text), rp)
    elif e == "EnforceOff":
        ex = [d for d in details if d.get("sp") == ev["sp"] and d.get("enforce_off") == ev["mag"]]
        rp_obj["example"] = ex[:1]
        rp = ck.replay_file("enforce-off-%s-%d.json" % (ev["sp"].replace("/", "_"), ev["mag"]), json.dumps(rp_obj, indent=1))
        ck.violation("enforce-off:%s:%s" % (ev["sp"], what),
                     "enforceBounds on off-lattice %s states (magnitude class %d): %s%s"
                     % (ev["sp"], ev["mag"], text, "; e.g. " + json.dumps(ex[0]) if ex else ""), rp)
    elif e == "Sample":
        seed, draw = ev["seed0"] + i // ev["draws"], i % ev["draws"]
        probe = [ev["sp"], ev["smp"], ev["mode"], ev["c"], ev["dc"], str(seed), str(draw)]
        ex = [d for d in details if d.get("sp") == ev["sp"] and d.get("smp") == ev["smp"] and d.get("mode") == ev["mode"]
              and d.get("c") == ev["c"] and d.get("dc") == ev["dc"]]
        rp = ck.replay_file("sample-%s.json" % "-".join(probe).replace("/", "_"),
                            json.dumps({"probe": probe, "example": ex[:1]}, indent=1))
        name = {"U": "sampleUniform", "N": "sampleUniformNear", "G": "sampleGaussian"}[ev["mode"]]
        ck.violation("sampler:%s:%s:%s:%s:%s" % (ev["sp"], ev["smp"], ev["mode"], ev["c"], ev["dc"]),
                     "%s of %s (sampler %s, centre %s, distance class %s): %s; RNG::setSeed(%d), call %d%s"
                     % (name, ev["sp"], ev["smp"], ev["c"], ev["dc"], text, seed, draw,
                        "; " + json.dumps(ex[0]) if ex else ""), rp)
    elif e == "Valid":
        src = ev.get("src")
        ex = [d for d in details if d.get("vs") == ev["vs"] or (d.get("case") or {}).get("kind") == ev["vs"]]
        rp_obj["example"] = ex[:1]
        if src == "script" and ex:
            rp_obj = {"attempt_case": ex[0]["case"], "detail": ex[0]}
        rp = ck.replay_file("valid-%s-%s.json" % (src, ev["vs"]), json.dumps(rp_obj, indent=1))
        where = "scripted validity %s" % ev.get("cfg") if src == "script" else \
            "grid world %s in %s, attempts %s, call %s, seeds from %s" % (ev.get("world"), ev.get("arena"), ev.get("A"),
                                                                         ev.get("call"), ev.get("seed0"))
        ck.violation("%s:%s:%s" % ("attempts" if src == "script" else "valid", ev["vs"], what),
                     "valid-state sampler %s (%s): %s%s" % (ev["vs"], where, text, "; e.g. " + json.dumps(ex[0])[:700] if ex else ""), rp)
    elif e == "Threw":
        rp = ck.replay_file("threw-%s.json" % label, json.dumps(ev, indent=1))
        ck.violation("threw:%s:%s" % (ev.get("sp") or ev.get("vs"), ev.get("smp") or ev.get("world")),
                     "a sampler threw instead of producing a state: %s" % json.dumps(ev), rp)
    else:
        rp = ck.replay_file("rejected-%s.json" % label, json.dumps(ev, indent=1))
        ck.violation("rejected:%s:%s" % (label, e), "observation rejected by the contract: %s" % json.dumps(ev)[:600], rp)


def _group(ev):
    """Records that would be described by the same violation key (used only to avoid re-validating
    what TLC has already rejected once)."""
    e = ev.get("e")
    if e in ("Enforce", "EnforceOff"):
        return None                       # one record per setting: never repeated
    what, i, _ = _first_bad(ev)
    if i < 0:
        return None
    if e == "Sample":
        return ("Sample", ev["sp"], ev["smp"], ev["mode"], what)
    if e == "Valid":
        return ("Valid", ev.get("src"), ev["vs"], what)
    return None


def _validate(ck, path, label, details, max_rejections=12):
    """TLC validation of a logged trace; after a rejection validation resumes behind the rejected
    line so that every distinct finding of one run is reported (further records of the same sampler
    and failure kind as an already rejected one are set aside).  Returns the number of rejections."""
    events = vlib.read_ndjson(path)
    total = len(events)
    rejected, set_aside, first = 0, 0, True
    while events:
        sub = path
        if not first:
            sub = path + ".rest"
            vlib.write_ndjson(sub, [{"e": "Reset"}] + events)
        acc, prefix, res = validate_trace("base/SamplerTrace", sub, timeout=1800)
        accepted = (len(events) if acc else prefix) - (0 if first or acc else 1)
        ck.add("trace_events_validated", max(accepted, 0))
        if acc:
            break
        bad = prefix - (0 if first else 1)
        if bad >= len(events):
            raise FrameworkError("trace %s rejected beyond its end" % label)
        rejected += 1
        ev = events[bad]
        _report(ck, ev, label, details)
        g = _group(ev)
        rest = events[bad + 1:]
        if g is not None:
            keep = [x for x in rest if _group(x) != g]
            set_aside += len(rest) - len(keep)
            rest = keep
        events, first = rest, False
        if rejected >= max_rejections:
            log("[C08] %s: stopped after %d rejected records" % (label, rejected))
            break
    if set_aside:
        ck.add("trace_events_set_aside_after_rejection", set_aside)
    return rejected


def run(tier):
    ck = Check(PID, tier, "exploration")
    t = _tier(tier)
    ck.assumptions += [
        "a finite state is one whose values are finite doubles (no NaN / infinity)",
        "centres handed to near / Gaussian sampling are in bounds; distances and deviations are >= 0 and finite",
        "low <= high in every bound (the library rejects anything else); zero width is allowed",
        "the validity predicate is a function of the state",
        "for SO(3) 'unchanged' means the same rotation: direction to 1e-12, norm to the 1e-9 at which the space defines in-bounds",
        "a SubspaceStateSampler writes only its subspace: the rest of the output state is in bounds beforehand",
    ]
    binary = build_harness("bounds", needs_lib=True)

    # ---- 1. enforceBounds: model check + dump + replay
    rows = []
    res = run_tlc("base/BoundsAlgebra", cfg=_cfg_bounds(t), workers=1, timeout=3000, json_sink=rows.append)
    ck.tlc(res, "BoundsAlgebra")
    if res.violated:
        # the transcription breaks a law: a design-level finding; the verdict on the code comes from the replay
        log("[C08] note: TLC reports %s violated in the lattice model" % res.violated)
        ck.set("model_violation", res.violated)
    settings = [r for r in rows if "settings" in r]
    cases = [r for r in rows if "sid" in r and "x" in r]
    if len(settings) != 1 or not cases:
        raise FrameworkError("BoundsAlgebra dumped no settings / cases")
    per_sid = {}
    for c in cases:
        per_sid[c["sid"]] = per_sid.get(c["sid"], 0) + 1
    missing = [s["name"] for s in settings[0]["settings"] if s["sid"] not in per_sid]
    if missing and not res.violated:
        raise FrameworkError("vacuity gate: settings without lattice inputs: %s" % missing)
    cpath = os.path.join(WORK, "c08-enforce-cases.ndjson")
    vlib.write_ndjson(cpath, settings + cases)
    tpath_e = os.path.join(WORK, "c08-enforce-trace.ndjson")
    out, summ = _harness(ck, binary, ["replay-enforce", cpath, tpath_e], "replay-enforce")
    details_e = _lines(out, "FAIL")
    if summ:
        ck.add("evaluations", summ["cases"])
        ck.set("enforce_lattice_cases", summ["cases"])
        ck.set("enforce_settings", summ["settings"])
        classes = summ["classes"]
        ck.set("distinct_nontrivial", len(classes))
        absent = [c for c in REQUIRED_CLASSES if c not in classes]
        if absent:
            raise FrameworkError("vacuity gate: case classes never reached by the lattice replay: %s" % absent)
        ck.sample({"kind": "lattice classes hit (excerpt)", "classes": {k: classes[k] for k in sorted(classes)[:12]}})
        rej = _validate(ck, tpath_e, "enforce", details_e)
        if (summ["failures"] > 0) != (rej > 0):
            raise FrameworkError("harness and TLC disagree on the enforce replay (%d failures, %d rejections)"
                                 % (summ["failures"], rej))
        ck.sample({"kind": "replayed lattice case", "case": cases[len(cases) // 3]})

    # ---- 2. attempt loops: enumerate + scripted replay
    arows = []
    model_bad = False
    for name, kinds, attempts, nds, improve, clr in t["attempt_runs"]:
        res = run_tlc("base/AttemptLoops", cfg=_cfg_attempts("%s-%s" % (tier, name), kinds, attempts, nds, improve, clr),
                      workers=1, timeout=3000, json_sink=arows.append)
        ck.tlc(res, "AttemptLoops-" + name)
        if res.violated:
            log("[C08] note: TLC reports %s violated in the attempt-loop model" % res.violated)
            ck.set("model_violation_attempts", res.violated)
            model_bad = True
    arows = [r for r in arows if "kind" in r]
    seen = {(r["kind"], r["ret"]) for r in arows}
    lack = [(k, f) for k in KINDS for f in (True, False) if (k, f) not in seen]
    if lack and not model_bad:
        raise FrameworkError("vacuity gate: attempt-loop outcomes never enumerated: %s" % lack)
    taken = {}
    for r in arows:
        for a in r.pop("path", []):
            taken[a] = taken.get(a, 0) + 1
    idle = [a for a in ACTIONS if a not in taken]
    if idle and not model_bad:
        raise FrameworkError("vacuity gate: actions of AttemptLoops never taken: %s" % idle)
    ck.set("attempt_model_actions_taken", taken)
    apath = os.path.join(WORK, "c08-attempt-cases.ndjson")
    vlib.write_ndjson(apath, arows)
    tpath_a = os.path.join(WORK, "c08-attempt-trace.ndjson")
    out, summ = _harness(ck, binary, ["replay-attempts", apath, tpath_a, str(t["script_seeds"])], "replay-attempts")
    details_a = _lines(out, "FAIL")
    if summ:
        ck.add("evaluations", summ["runs"])
        ck.set("attempt_scripts", summ["cases"])
        ck.set("attempt_runs", summ["runs"])
        ck.set("attempt_runs_per_kind", summ["per_kind"])
        ck.set("scripted_validity_queries", summ["queries"])
        ck.set("impl_drift_runs", summ["drift"])          # metric only: loop shape differs from the transcription
        ck.set("coincident_state_runs", summ["coincident_state_runs"])
        for k in KINDS:
            if not summ["returned_true"].get(k) or not summ["returned_false"].get(k):
                if not details_a and not summ["drift"]:
                    raise FrameworkError("vacuity gate: scripted %s sampler never returned both outcomes" % k)
        for d in _lines(out, "DRIFT")[:3]:
            log("[C08] drift (not a verdict): %s x%d, case %s" % (d["key"], d["count"], json.dumps(d["case"])[:300]))
        rej = _validate(ck, tpath_a, "attempts", details_a)
        if (summ["failures"] > 0) != (rej > 0):
            raise FrameworkError("harness and TLC disagree on the attempt replay (%d failures, %d rejections)"
                                 % (summ["failures"], rej))
        ck.sample({"kind": "scripted attempt loop", "case": arows[len(arows) // 2]})

    # ---- 3. recorded sampler outputs
    tpath_r = os.path.join(WORK, "c08-record-trace.ndjson")
    out, summ = _harness(ck, binary, ["record", tpath_r, str(t["record_seeds"])], "record")
    details_r = _lines(out, "BAD")
    if summ:
        ck.add("evaluations", summ["sampler_calls"] + summ["valid_calls"] + summ["enforce_off_inputs"])
        for k in ("sampler_calls", "sample_events", "valid_calls", "valid_events", "enforce_off_inputs", "seeds"):
            ck.set("record_" + k, summ[k])
        ck.set("off_lattice_classes", len(summ["off_lattice_classes"]))
        for k in KINDS:
            if not summ["valid_true"].get(k) or not summ["valid_false"].get(k):
                raise FrameworkError("vacuity gate: grid-world %s sampler never returned both outcomes" % k)
        ck.set("grid_world_returned_true", summ["valid_true"])
        ck.set("grid_world_returned_false", summ["valid_false"])
        evs = vlib.read_ndjson(tpath_r)
        per_space = {}
        for e in evs:
            if e.get("e") in ("Sample", "EnforceOff"):
                for pre in REQUIRED_RECORDED:
                    if e["sp"].startswith(pre):
                        k = pre.rstrip("/") + (":sampler_outputs" if e["e"] == "Sample" else ":enforce_inputs")
                        per_space[k] = per_space.get(k, 0) + len(e["in"] if e["e"] == "Sample" else e["inb0"])
        absent = [pre for pre in REQUIRED_RECORDED
                  if not per_space.get(pre.rstrip("/") + ":sampler_outputs") or not per_space.get(pre.rstrip("/") + ":enforce_inputs")]
        if absent:
            raise FrameworkError("vacuity gate: spaces never driven by the recording: %s" % absent)
        ck.set("record_new_spaces", per_space)
        ck.sample({"kind": "recorded sampler class", "event": {k: (v if not isinstance(v, list) else "%d flags" % len(v))
                                                               for k, v in evs[len(evs) // 2].items()}})
        _validate(ck, tpath_r, "record", details_r)

    ck.set("rule", "every lattice input of every space setting (clamp sides, zero width, huge, negative, wrap "
                   "arithmetic over several periods, quaternion norm regimes) with the model's expected result; every "
                   "validity-answer sequence of the valid-state samplers' loops up to the attempt limit; every sampler x "
                   "bound setting x centre class x distance class x seed; distinct_nontrivial counts the distinct "
                   "(space kind, component branch) classes measured on the replayed lattice inputs")
    return ck.finish()


def replay(path):
    """Re-execute a replay artefact written by run()."""
    binary = build_harness("bounds", needs_lib=True)
    if path.endswith(".ndjson"):
        acc, prefix, res = validate_trace("base/SamplerTrace", path)
        print("accepted" if acc else "REJECTED at record %d" % (prefix + 1))
        return 0 if acc else 1
    obj = json.load(open(path))
    tmp = vlib.ensure_dir(os.path.join(WORK, "c08-replay"))
    if "probe" in obj:
        rc, out, err = run_cmd([binary, "probe"] + obj["probe"])
        print(out + err)
        return 1 if rc else 0
    if "enforce_case" in obj:
        t = _tier(obj.get("tier", "quick"))
        rows = []
        res = run_tlc("base/BoundsAlgebra", cfg=_cfg_bounds(t), workers=1, timeout=3000, json_sink=rows.append)
        settings = [r for r in rows if "settings" in r]
        c = obj["enforce_case"]
        case = [r for r in rows if r.get("sid") == c["sid"] and r.get("x") == c["x"]]
        if not settings or not case:
            print("case not in the lattice of this tier")
            return 2
        cp, tp = os.path.join(tmp, "case.ndjson"), os.path.join(tmp, "trace.ndjson")
        vlib.write_ndjson(cp, settings + case)
        rc, out, err = run_cmd([binary, "replay-enforce", cp, tp])
        print(out + err)
        acc, prefix, res = validate_trace("base/SamplerTrace", tp)
        print("accepted" if acc else "REJECTED by SamplerTrace")
        return 0 if acc else 1
    if "attempt_case" in obj:
        cp, tp = os.path.join(tmp, "acase.ndjson"), os.path.join(tmp, "atrace.ndjson")
        vlib.write_ndjson(cp, [obj["attempt_case"]])
        rc, out, err = run_cmd([binary, "replay-attempts", cp, tp, "5"])
        print(out + err)
        acc, prefix, res = validate_trace("base/SamplerTrace", tp)
        print("accepted" if acc else "REJECTED by SamplerTrace")
        return 0 if acc else 1
    print(json.dumps(obj, indent=1)[:3000])
    print("re-run ./check C08 to reproduce; the record above is the first rejected one")
    return 1


def selftest():
    """Binding demonstration that needs no rebuild of the library: (a) one field of a recorded trace
    is corrupted by hand, three ways, and SamplerTrace must reject exactly that record; (b) the
    expectation of one lattice case is corrupted and the replay must fail on it.  Source mutations
    are run with tools/mutate.py C08 mutants/C08/*.diff."""
    import copy
    binary = build_harness("bounds", needs_lib=True)
    d = vlib.ensure_dir(os.path.join(WORK, "c08-selftest"))
    tp = os.path.join(d, "trace.ndjson")
    rc, out, err = run_cmd([binary, "record", tp, "3"])
    if rc != 0:
        raise FrameworkError("record failed: " + (out + err)[-800:])
    ev = vlib.read_ndjson(tp)
    ok = True

    def corrupt(label, pick, edit):
        nonlocal ok
        a = copy.deepcopy(ev)
        i = next(k for k, e in enumerate(a) if pick(e))
        edit(a[i])
        p = os.path.join(d, "corrupt-%s.ndjson" % label)
        vlib.write_ndjson(p, a)
        acc, prefix, res = validate_trace("base/SamplerTrace", p)
        good = (not acc) and prefix == i
        print("selftest %-28s %s (record %d, rejected at %s)" % (label, "ok" if good else "NOT DETECTED", i, prefix))
        ok = ok and good

    acc, prefix, res = validate_trace("base/SamplerTrace", tp)
    print("selftest %-28s %s" % ("unmodified trace", "accepted" if acc else "rejected at %d" % prefix))
    corrupt("sample-flag", lambda e: e["e"] == "Sample" and e["mode"] == "G", lambda e: e["in"].__setitem__(1, 0))
    corrupt("valid-returned-invalid", lambda e: e["e"] == "Valid" and 1 in e["ret"],
            lambda e: e["val"].__setitem__(e["ret"].index(1), 0))
    corrupt("enforce-not-idempotent", lambda e: e["e"] == "EnforceOff", lambda e: e["same2"].__setitem__(0, 0))
    corrupt("sampler-threw", lambda e: e["e"] == "Sample", lambda e: e.__setitem__("e", "Threw"))
    # (b) a wrong expectation must be noticed by the replay
    t = _tier("quick")
    rows = []
    run_tlc("base/BoundsAlgebra", cfg=_cfg_bounds(t), workers=1, timeout=3000, json_sink=rows.append)
    settings = [r for r in rows if "settings" in r]
    case = copy.deepcopy(next(r for r in rows if r.get("sid") == 1 and r.get("x") == [30]))
    case["y"] = [case["y"][0] - 1]
    cp, tp2 = os.path.join(d, "case.ndjson"), os.path.join(d, "case-trace.ndjson")
    vlib.write_ndjson(cp, settings + [case])
    rc, out, err = run_cmd([binary, "replay-enforce", cp, tp2])
    acc2, _, _ = validate_trace("base/SamplerTrace", tp2)
    good = (not acc2) and "Faithful" in out
    print("selftest %-28s %s" % ("wrong lattice expectation", "ok" if good else "NOT DETECTED"))
    ok = ok and good and acc
    shutil.rmtree(d, ignore_errors=True)
    return 0 if ok else 1
