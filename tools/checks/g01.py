"""G01 (specification growth) - dynamic shortest-path structures of LBTRRT / LazyLBTRRT.

    ompl::DynamicSSSP (kind sssp), ompl::LPAstarOnGraph (lpa: undirected boost graph as LazyLBTRRT
    drives it, lpad: bidirectionalS graph), ompl::AdjacencyList (adj)

1. TLC checks the contract specs/ds/DynamicGraph.tla itself (triangle property, parent chains,
   Bellman-Ford fixpoint = path enumeration, monotonicity under insertion / removal).
2. TLC checks the implementation-shaped specs ds/DynamicSSSP.tla and ds/LPAstar.tla against the
   contract for all histories within the bounds (refinement as invariant + the LPA* consistency
   invariants).  LPAstar is checked as the code is now (must refine) and with each of the two
   statements of the pinned code that TLC refuted (erase-by-value in removeQueue, "empty queue =
   infinity" in computeShortestPath; repaired in /repo by dd4cdccd9 and 56f0c279a) put back as a
   model mutation: TLC must still refute those (vacuity gate), and their counterexample histories
   are re-executed on the real class as regression scenarios.  DynamicSSSP is checked under its
   documented no-ties assumption (must refine) and without it (TLC shows what it is needed for).
3. The contract's state graph is exported with the table of admissible answers per state and
   replayed on the real classes (ASan/UBSan): every edge, every pair of edges, random walks, all
   paths up to a depth; complete query battery after every observed step.
4. Long random histories recorded from the real classes are validated by TLC against the
   contract (ds/DynamicGraphTrace.tla, report-and-advance).
Verdicts come from the contract only; every deviation is filed under a stable kind.
"""
import json
import os
import shutil
import threading
import time
from concurrent.futures import ThreadPoolExecutor

import vlib
from vlib import Check, run_tlc, run_cmd, build_harness, Graph, validate_trace, FrameworkError, WORK, log

PID = "G01"
KINDS = ("sssp", "lpa", "lpad", "adj")


# --------------------------------------------------------------------------- configurations
def _write_cfg(name, lines):
    d = vlib.ensure_dir(os.path.join(WORK, "cfg-g01"))
    p = os.path.join(d, name + ".cfg")
    with open(p, "w") as f:
        f.write("\n".join(lines) + "\n")
    return p


def _consts(kind, n, w, maxe, src=0, tgt=1, hsel=0, tiefree=True):
    return ["CONSTANTS", '  Kind = "%s"' % kind, "  N = %d" % n, "  W = {%s}" % ", ".join(map(str, w)),
            "  MaxE = %d" % maxe, "  Source = %d" % src, "  Target = %d" % tgt, "  HSel = %d" % hsel,
            "  TieFreeOnly = %s" % ("TRUE" if tiefree else "FALSE")]


def _contract_cfg(name, dump, **c):
    body = ["SPECIFICATION Spec"] + _consts(**c) + ["VIEW View"]
    if dump:
        body.append("ACTION_CONSTRAINT Dump")
    else:
        body += ["INVARIANTS TypeOK UndirectedIsSymmetric Triangle ParentChain FixpointIsEnumeration",
                 "PROPERTY Monotone"]
    return _write_cfg(name, body)


LPA_INVS = ("RefinesContract RhsIsLookahead ParentRealisesRhs QueueIsInconsistentSet FlagIsMembership "
            "KeysCurrent QueueSorted SearchPostcondition TargetKeyStableInQueue")


def _lpa_cfg(name, erase, empty, maxlen=0, invs=LPA_INVS, view="LView", **c):
    body = ["SPECIFICATION ISpec"] + _consts(**c) + [
        "  EraseAllEqual = %s" % ("TRUE" if erase else "FALSE"),
        "  EmptyMeansInf = %s" % ("TRUE" if empty else "FALSE"),
        "  MaxLen = %d" % maxlen, "VIEW " + view, "INVARIANTS " + invs]
    return _write_cfg(name, body)


def _sssp_cfg(name, invs="CostsRefine ParentsRefine GraphRefines InsMirrorOuts", view="SView", prop=True, **c):
    body = ["SPECIFICATION ISpec"] + _consts(**c) + ["VIEW " + view, "INVARIANTS " + invs]
    if prop:
        body.append("PROPERTY AffectedRefine")
    return _write_cfg(name, body)


# --------------------------------------------------------------------------- helpers
def _parse(out, tag):
    rows = []
    for line in out.splitlines():
        if line.startswith(tag + " "):
            try:
                rows.append(json.loads(line[len(tag) + 1:]))
            except ValueError:
                pass
    return rows


def _history_of_cex(path):
    """operation history of a TLC counterexample written by -dumpTrace json"""
    j = json.load(open(path))
    ops = []
    for step in j["counterexample"]["action"]:
        la = step[2][1]["lastAct"]
        op = dict(la["args"]) if isinstance(la["args"], dict) else {}
        op["e"] = la["act"]
        if op["e"] == "Setup":
            op.update(k=op.get("kind"), s=op.get("source"), t=op.get("target"))
        ops.append(op)
    return ops


def _brief(ops):
    out = []
    for o in ops:
        e = o.get("e") or o.get("a")
        a = o if "e" in o else (o.get("args") or {})
        if e == "Setup":
            out.append("Setup(n=%s,s=%s,t=%s,h=%s)" % (a.get("n"), a.get("s", a.get("source")), a.get("t", a.get("target")), a.get("h")))
        elif "c" in a:
            out.append("%s(%s,%s,%s)" % (e, a.get("u"), a.get("v"), a.get("c")))
        elif "u" in a:
            out.append("%s(%s,%s)" % (e, a.get("u"), a.get("v")))
        else:
            out.append(e)
    return " ".join(out)


class _Run:
    """shared state of one check run"""

    def __init__(self, ck, tier):
        self.ck = ck
        self.tier = tier
        self.binary = None
        self.lock = threading.Lock()
        self.dumps_active = 0
        self.kinds_seen = {}        # finding kind -> times reported (first history per channel)
        self.kind_counts = {}       # finding kind -> observations counted by the replay judge
        self.metrics = {}
        self.gates = {}

    def add(self, key, n=1):
        with self.lock:
            self.ck.add(key, n)

    def count(self, kind, n):
        with self.lock:
            self.kind_counts[kind] = self.kind_counts.get(kind, 0) + n

    def workers(self):
        """TLC workers for the next model-checking run: the cores the single-worker dump runs do not occupy"""
        with self.lock:
            return max(1, vlib.NCPU - min(self.dumps_active, vlib.NCPU // 2) - (1 if self.binary is None else 0))

    def gate(self, name, n):
        with self.lock:
            self.gates[name] = self.gates.get(name, 0) + n

    def metric(self, name, n):
        with self.lock:
            self.metrics[name] = self.metrics.get(name, 0) + n

    def finding(self, kind, why, scenario, channel):
        """a deviation of the real class from the contract, filed under its kind"""
        with self.lock:
            first = kind not in self.kinds_seen
            self.kinds_seen[kind] = self.kinds_seen.get(kind, 0) + 1
            if not first:
                self.ck.violation(kind, "", "")     # counted under the same key
                return
            name = "scenario-" + "".join(ch if ch.isalnum() else "_" for ch in kind)[:80] + ".json"
            rp = self.ck.replay_file(name, json.dumps({"kind": kind, "why": why, "channel": channel,
                                                       "scenario": scenario}, indent=1))
            self.ck.violation(kind, "%s [%s]; history (%d operations): %s"
                              % (why, channel, len(scenario), _brief(scenario)[:900]), rp)


def _validate(run, tpath, channel, count=True):
    """TLC judges a recorded trace; returns the number of rejected lines"""
    rej = []
    acc, prefix, res = validate_trace("ds/DynamicGraphTrace", tpath, timeout=1500, json_sink=rej.append)
    for line in res.out.splitlines():          # tail of the buffer (see vlib notes)
        if line.startswith("{") and '"reject"' in line:
            try:
                rej.append(json.loads(line))
            except ValueError:
                pass
    evs = vlib.read_ndjson(tpath)
    run.add("trace_events", len(evs))
    seen = {}
    for r in rej:
        if isinstance(r, dict) and "reject" in r:
            seen[r["reject"]] = r
    if not acc:
        bad = evs[prefix] if prefix is not None and prefix < len(evs) else {}
        # the history of the line the cursor stopped at
        start = max([i for i in range(min(prefix or 0, len(evs) - 1) + 1) if evs[i].get("e") == "Setup"] or [0])
        hist = evs[start:(prefix or 0) + 1]
        if bad.get("e") in ("Crash", "Hang"):
            kind = "%s:%s" % (hist[0].get("k", "?"), "hang" if bad.get("e") == "Hang" else "crash")
            pend = []
            try:
                pend = json.loads(bad.get("pending", "[]"))
            except ValueError:
                pass
            run.finding(kind, "the real class %s under a recorded history: %s"
                        % ("did not return from an operation" if bad.get("e") == "Hang" else "crashed", json.dumps(bad)[:300]),
                        [_strip(e) for e in hist[:-1]] + pend, channel)
        else:
            raise FrameworkError("trace %s not understood by DynamicGraphTrace at line %s: %s\n%s"
                                 % (tpath, (prefix or 0) + 1, json.dumps(bad)[:400], res.out[-1500:]))
    for ln in sorted(seen):
        r = seen[ln]
        start = max(i for i in range(ln) if evs[i].get("e") == "Setup")
        hist = [_strip(e) for e in evs[start:ln]]
        for clause in r["broken"]:
            if clause.startswith("assumption:"):
                raise FrameworkError("recorder left the documented preconditions (%s) at line %d of %s" % (clause, ln, tpath))
            k = r["k"]
            if k in ("lpa", "lpad"):
                kind = "%s:compute:%s" % (k, clause)
            elif k == "adj" and clause in ("return-value",):
                kind = "adj:return-value:" + r["e"]
            elif k == "adj" and clause == "addVertex-id":
                kind = "adj:addVertex-id"
            else:
                kind = "%s:%s:after-%s" % (k, clause, r["e"])
            run.finding(kind, "recorded answer rejected by the contract at line %d: %s" % (ln, json.dumps(evs[ln - 1])[:500]),
                        hist, channel)
    if acc and count:
        nh = sum(1 for e in evs if e.get("e") == "Setup")
        run.add("traces_validated_against_impl", nh)
        run.add("recorded_histories", nh)
    return len(seen)


_OBS = ("dist", "par", "aff", "kept", "cost", "path", "gt", "g", "q", "nv", "ne", "vx", "ret", "id")


def _strip(ev):
    """operation of a trace line (answers removed), in the form `sssp scenario` re-executes"""
    return {k: v for k, v in ev.items() if k not in _OBS}


# --------------------------------------------------------------------------- the phases
def _mc_contract(run, name, **c):
    res = run_tlc("ds/DynamicGraph", cfg=_contract_cfg(name, False, **c), workers=run.workers(), timeout=2400)
    with run.lock:
        run.ck.tlc(res, name)
    if res.violated:
        raise FrameworkError("the contract DynamicGraph is not self-consistent (%s violated in %s):\n%s"
                             % (res.violated, name, res.out[-2500:]))


def _mc_impl(run, module, cfg, name, mode, confirm_kind=None):
    """model-check an implementation-shaped spec.
    mode "ok":         the configuration must refine the contract;
         "finding":    a model mutation that puts a refuted statement of the pinned code back: TLC must
                       refute it (vacuity gate); the counterexample history is re-executed on the real
                       class and judged by the trace specification (a regression shows up as a violation);
         "assumption": the model outside a documented assumption, TLC must refute it (shows what the
                       assumption is needed for; no verdict on the code);
         "probe":      a reachability probe (vacuity gate), the invariant must be violated."""
    cex = os.path.join(WORK, "g01-cex-%s.json" % name)
    if os.path.exists(cex):
        os.remove(cex)
    extra = [] if mode in ("ok", "probe") else ["-dumpTrace", "json", cex]
    res = run_tlc(module, cfg=cfg, workers=run.workers(), timeout=2400, extra=extra)
    with run.lock:
        run.ck.tlc(res, name)
    if mode == "ok":
        if res.violated:
            raise FrameworkError("%s (%s): the algorithm model (code as it is, documented assumptions kept) does not refine the "
                                 "contract (%s violated) - the model or the contract is wrong:\n%s"
                                 % (module, name, res.violated, res.out[-3000:]))
        return None
    if not res.violated:
        raise FrameworkError("%s (%s): %s" % (module, name, "vacuity gate: the probed situation is unreachable in the model"
                                              if mode == "probe" else "TLC no longer refutes this model - vacuous finding"))
    if mode == "probe":
        run.gate("model_" + name, 1)
        return None
    ops = _history_of_cex(cex)
    note = {"config": name, "violated": res.violated, "history": _brief(ops)}
    with run.lock:
        (run.design if mode == "finding" else run.assumption_demos).append(note)
    log("[G01] %s (%s): %s violated after %s" % ("pinned variant refuted" if mode == "finding" else "assumption is needed",
                                                   name, res.violated, note["history"]))
    if confirm_kind:
        run.to_confirm.append((name, confirm_kind, ops))
    return ops


def _confirm_on_real(run):
    """the counterexample histories TLC found in the model mutations, on the real class"""
    for name, kind, ops in run.to_confirm:
        sc = os.path.join(WORK, "g01-cex-%s-scenario.json" % name)
        tr = os.path.join(WORK, "g01-cex-%s-trace.ndjson" % name)
        ops = [dict(o) for o in ops if o["e"] != "Init"]
        ops[0]["k"] = kind
        json.dump(ops, open(sc, "w"))
        rc, out, err = run_cmd([run.binary, "scenario", sc, tr], timeout=120)
        if rc not in (0, 70, 71, 77, 78):
            raise FrameworkError("scenario run failed rc=%s: %s" % (rc, (out + err)[-800:]))
        nrej = _validate(run, tr, "TLC counterexample of the model mutation %s re-executed on the real class" % name, count=False)
        run.ck.add("traces_validated_against_impl", 1)
        for d in run.design:
            if d["config"] == name:
                d["real_code_shows_it"] = bool(nrej) or rc != 0
        log("[G01] counterexample of %s on the real class: %s" % (name, "REPRODUCED" if nrej or rc else "not reproduced (the code does not have this defect)"))


def _dump(run, name, **c):
    edges = []
    res = run_tlc("ds/DynamicGraph", cfg=_contract_cfg(name, True, **c), workers=1, timeout=2400, json_sink=edges.append)
    if res.error:
        raise FrameworkError(res.error)
    g = Graph(edges)
    g.check_connected()
    gpath = g.write(os.path.join(WORK, "g01-%s.ndjson" % name))
    acts = {}
    for e in g.edges:
        acts[e["a"]] = acts.get(e["a"], 0) + 1
        x = e["exp"]
        a = e["a"]
        if any(d == -1 for d in x["dist"]) or (c["kind"] in ("lpa", "lpad") and x["cost"] == -1):
            run.gate("unreachable_answers_in_tables", 1)
        if a.startswith("Remove") or a == "AdjRemoveEdge":
            if x["lost"]:
                run.gate("removal_that_disconnects", 1)
            if x["chg"]:
                run.gate("removal_that_lengthens_a_used_shortest_path", 1)
            if len(x["chg"]) + len(x["lost"]) >= 2:
                run.gate("removal_orphaning_a_subtree", 1)
        if a in ("AddArc", "AddEdge", "AdjAddEdge"):
            if x["chg"]:
                run.gate("insertion_that_shortens_a_shortest_path", 1)
            if len(x["chg"]) >= 2:
                run.gate("insertion_propagating_beyond_its_head", 1)
    with run.lock:
        run.ck.set("edges_per_action_" + name, acts)
        run.ck.add("states", len(g.ids))
        run.ck.add("transitions", len(g.edges))
        run.ck.tlc_runs.append(res.summary(name))
    need = {"sssp": {"Setup", "AddVertex", "AddArc", "RemoveArc", "Clear"},
            "lpa": {"Setup", "AddEdge", "RemoveEdge", "Compute"},
            "lpad": {"Setup", "AddArc", "RemoveArc", "Compute"},
            "adj": {"Setup", "AddVertex", "AdjAddEdge", "AdjRemoveEdge", "AdjSetWeight", "Clear"}}[c["kind"]]
    if need - set(acts):
        raise FrameworkError("vacuity gate: actions never taken in %s: %s" % (name, sorted(need - set(acts))))
    return gpath, len(g.edges)


def _replay_shard(run, kind, gpath, shard, nshards, edges, pairs, walks, walklen, budget):
    cmd = [run.binary, "replay", kind, gpath, str(shard), str(nshards), "edges" if edges else "-",
           pairs if pairs else "-", str(walks), str(walklen), str(budget)]
    return run_cmd(cmd, timeout=3000)


def _replay_collect(run, kind, name, results):
    tot = {"scenarios": 0, "steps": 0}
    for shard, (rc, out, err) in enumerate(results):
        for f in _parse(out, "FINDING"):
            run.finding(f["kind"], f["why"], f["scenario"], "replay of the contract's state graph %s" % name)
        for h in _parse(out, "HANG"):
            run.finding("%s:hang" % kind, "an operation of the real class did not return within 3 s of CPU time "
                        "(endless loop) at the end of this history", h, "replay of the contract's state graph %s" % name)
        summ = _parse(out, "SUMMARY")
        if rc in (70, 77, 78) or "CRASH" in out or (rc < 0 and rc != -999):
            rp = run.ck.replay_file("crash-%s-%d.txt" % (name, shard), (out[-3000:] + "\n" + err[-6000:]))
            run.ck.violation("%s:crash" % kind, "harness crashed / sanitizer report while replaying %s (rc=%s): %s"
                             % (name, rc, (err or out)[-700:]), rp)
            continue
        if rc == 71 and not summ:
            continue        # hang, reported above; the shard's remaining scenarios are lost
        if not summ:
            raise FrameworkError("replay %s shard %d produced no summary (rc=%s): %s" % (name, shard, rc, (out + err)[-1500:]))
        s = summ[-1]
        tot["scenarios"] += s["scenarios"]
        tot["steps"] += s["steps"]
        for k, n in s.get("findings", {}).items():
            run.count(k, n)
        for k, n in s.get("metrics", {}).items():
            run.metric(k, n)
        if "all_paths_depth" in s:
            with run.lock:
                run.ck.set("all_paths_depth_" + name, s["all_paths_depth"])
                run.ck.add("all_paths_scenarios", s.get("all_paths_scenarios", 0))
    with run.lock:
        run.ck.add("traces_validated_against_impl", tot["scenarios"])
        run.ck.add("replayed_scenarios", tot["scenarios"])
        run.ck.add("replayed_steps", tot["steps"])
        run.ck.sample({"kind": "replayed state graph", "config": name, "scenarios": tot["scenarios"], "steps": tot["steps"]})
    log("[G01] replayed %s: %d scenarios, %d steps" % (name, tot["scenarios"], tot["steps"]))


def _record(run, kind, histories, ops, maxv, idx):
    tpath = os.path.join(WORK, "g01-trace-%s-%d.ndjson" % (kind, idx))
    rc, out, err = run_cmd([run.binary, "record", kind, tpath, str(histories), str(ops), str(maxv)], timeout=1200,
                           env={"VERIF_SEED": str(vlib.seed() * 1009 + idx)})
    if rc not in (0, 70, 71, 77, 78):
        raise FrameworkError("recording %s failed rc=%s: %s" % (kind, rc, (out + err)[-1200:]))
    if rc in (77, 78):
        rp = run.ck.replay_file("trace-%s-%d.ndjson" % (kind, idx))
        shutil.copyfile(tpath, rp)
        run.ck.violation("%s:sanitizer" % kind, "sanitizer report under a random history: " + err[-800:], rp)
        return
    _validate(run, tpath, "random history recorded from the real class (%s, VERIF_SEED=%d)" % (kind, vlib.seed()))
    if idx == 0 and kind == "sssp":
        run.ck.sample({"kind": "recorded trace excerpt", "events": vlib.read_ndjson(tpath)[3:6]})


# --------------------------------------------------------------------------- run
def run(tier):
    ck = Check(PID, tier, "model_checking")
    ck.assumptions += [
        "DynamicSSSP: 'no two paths have the same cost' (comment on addEdge) and positive weights (its assert); the same "
        "edge may be added again with the same weight, as LBTRRT does",
        "LPAstarOnGraph: consistent heuristic with h(target)=0, source != target, an edge is inserted only when absent, "
        "the boost graph is updated before insertEdge/removeEdge (LazyLBTRRT's call pattern); compiled with NDEBUG like libompl",
        "AdjacencyList: weights >= 0; component queries only while no edge has been removed (header); vertices addressed exist",
        "integer-valued weights (exact in double) so that TLC can judge every answer exactly",
    ]
    run = _Run(ck, tier)
    run.design = []
    run.assumption_demos = []
    run.to_confirm = []
    ncpu = vlib.NCPU
    quick = tier == "quick"

    # harness build in the background while TLC works
    build_err = []

    def build():
        try:
            run.binary = build_harness("sssp", needs_lib=False, san="asan", extra=("-DNDEBUG", "-w"))
        except Exception as ex:      # noqa: BLE001
            build_err.append(ex)

    bt = threading.Thread(target=build)
    bt.start()

    # ---- 1. the contract itself
    contract = [("contract-sssp", dict(kind="sssp", n=4, w=(1, 2, 4), maxe=3 if quick else 4)),
                ("contract-lpa", dict(kind="lpa", n=4, w=(1, 2, 3), maxe=12, src=0, tgt=3, hsel=1, tiefree=False)),
                ("contract-lpad", dict(kind="lpad", n=3, w=(1, 2), maxe=6, src=0, tgt=2, tiefree=False)),
                ("contract-adj", dict(kind="adj", n=3 if quick else 4, w=(0, 1, 2), maxe=6 if quick else 8, tiefree=False))]
    # ---- 2. implementation-shaped specs
    lpa_small = dict(kind="lpa", n=3, w=(1, 2), maxe=6, src=0, tgt=2, hsel=0, tiefree=False)
    lpa_h = dict(kind="lpa", n=3, w=(1, 2, 3), maxe=6, src=0, tgt=2, hsel=1, tiefree=False)
    lpad_small = dict(kind="lpad", n=3, w=(1, 2), maxe=4 if quick else 6, src=0, tgt=2, hsel=0, tiefree=False)
    impl = [
        # the pinned statements put back (model mutations): TLC must refute, counterexamples go to the real class
        ("lpa-pinned-both", "ds/LPAstar", _lpa_cfg("lpa-pinned-both", True, True, invs="RefinesContract", **lpa_small), "finding", "lpa"),
        ("lpa-pinned-erase", "ds/LPAstar", _lpa_cfg("lpa-pinned-erase", True, False, invs="RefinesContract", **lpa_small), "finding", "lpa"),
        ("lpa-pinned-endless", "ds/LPAstar", _lpa_cfg("lpa-pinned-endless", True, True, invs="Terminates",
                                                         **dict(lpa_small, n=4, tgt=3, maxe=8)), "finding", "lpa"),
        ("lpa-pinned-erase-invariant", "ds/LPAstar", _lpa_cfg("lpa-pinned-erase-invariant", True, False, invs="QueueIsInconsistentSet", **lpa_small), "finding", None),
        ("lpad-pinned-both", "ds/LPAstar", _lpa_cfg("lpad-pinned-both", True, True, invs="RefinesContract", **lpad_small), "finding", "lpad"),
        # the code as it is: must refine, with all the LPA* invariants
        ("lpa-current-3", "ds/LPAstar", _lpa_cfg("lpa-current-3", False, False, **lpa_small), "ok", None),
        ("lpa-current-3h", "ds/LPAstar", _lpa_cfg("lpa-current-3h", False, False, **lpa_h), "ok", None),
        ("lpad-current-3", "ds/LPAstar", _lpa_cfg("lpad-current-3", False, False, **lpad_small), "ok", None),
        # vacuity probes of the LPA* model (each must be violated = the situation is reachable)
        ("lpa-probe-over", "ds/LPAstar", _lpa_cfg("lpa-probe-over", False, False, invs="ProbeNoOverconsistentHead", view="LViewProbe", **lpa_small), "probe", None),
        ("lpa-probe-under", "ds/LPAstar", _lpa_cfg("lpa-probe-under", False, False, invs="ProbeNoUnderconsistentHead", view="LViewProbe", **lpa_small), "probe", None),
        ("lpa-probe-mixed", "ds/LPAstar", _lpa_cfg("lpa-probe-mixed", False, False, invs="ProbeNoMixedSearch", view="LViewProbe", **lpa_small), "probe", None),
        ("lpa-probe-unreachable", "ds/LPAstar", _lpa_cfg("lpa-probe-unreachable", False, False, invs="ProbeNeverUnreachable", view="LViewProbe", **lpa_small), "probe", None),
        ("lpa-probe-tie", "ds/LPAstar", _lpa_cfg("lpa-probe-tie", False, False, invs="ProbeNoTieInQueue", view="LViewProbe", **lpa_small), "probe", None),
        # DynamicSSSP under its assumption must refine; without it TLC shows why it is assumed
        ("sssp-tiefree-3", "ds/DynamicSSSP", _sssp_cfg("sssp-tiefree-3", kind="sssp", n=3, w=(1, 2, 4), maxe=6), "ok", None),
        ("sssp-with-ties", "ds/DynamicSSSP", _sssp_cfg("sssp-with-ties", view="SViewOrdered", kind="sssp", n=4, w=(1,), maxe=4, tiefree=False), "assumption", None),
        ("sssp-probe-stale-parent", "ds/DynamicSSSP", _sssp_cfg("sssp-probe-stale-parent", invs="StaleParentNeverSeen", prop=False, kind="sssp", n=3, w=(1, 2), maxe=4), "probe", None),
    ]
    if not quick:
        lpa4 = dict(kind="lpa", n=4, w=(1, 2), maxe=12, src=0, tgt=3, hsel=0, tiefree=False)
        impl += [
            ("lpa-current-4-e6", "ds/LPAstar", _lpa_cfg("lpa-current-4-e6", False, False, **dict(lpa4, maxe=6)), "ok", None),
            ("lpa-current-4-len6", "ds/LPAstar", _lpa_cfg("lpa-current-4-len6", False, False, maxlen=6, **dict(lpa4, w=(1, 2, 3), hsel=1)), "ok", None),
            ("sssp-tiefree-3-ordered", "ds/DynamicSSSP", _sssp_cfg("sssp-tiefree-3-ordered", view="SViewOrdered", kind="sssp", n=3, w=(1, 2, 4), maxe=4), "ok", None),
            ("sssp-tiefree-4", "ds/DynamicSSSP", _sssp_cfg("sssp-tiefree-4", kind="sssp", n=4, w=(1, 2, 4), maxe=3), "ok", None),
        ]
    # ---- 3. state graphs to replay
    if quick:
        dumps = [("dump-sssp-4", dict(kind="sssp", n=4, w=(1, 2, 4), maxe=3), dict(edges=True, pairs=None, walks=2000, walklen=40, budget=0)),
                 ("dump-sssp-3", dict(kind="sssp", n=3, w=(1, 2, 4), maxe=4), dict(edges=True, pairs="pairs2", walks=2000, walklen=30, budget=40000)),
                 ("dump-lpa-4h", dict(kind="lpa", n=4, w=(1, 2, 3), maxe=12, src=0, tgt=3, hsel=1, tiefree=False), dict(edges=True, pairs="pairs2", walks=4000, walklen=40, budget=0)),
                 ("dump-lpa-3", dict(kind="lpa", n=3, w=(1, 2), maxe=6, src=0, tgt=2, hsel=0, tiefree=False), dict(edges=True, pairs="pairs", walks=2000, walklen=30, budget=100000)),
                 ("dump-lpad-3", dict(kind="lpad", n=3, w=(1, 2), maxe=6, src=0, tgt=2, hsel=0, tiefree=False), dict(edges=True, pairs="pairs2", walks=2000, walklen=30, budget=40000)),
                 ("dump-adj-3", dict(kind="adj", n=3, w=(0, 1, 2), maxe=6, tiefree=False), dict(edges=True, pairs=None, walks=1500, walklen=30, budget=20000))]
        rec = [("sssp", 12, 250, 12), ("lpa", 12, 250, 12), ("lpad", 8, 200, 10), ("adj", 8, 200, 10)]
    else:
        dumps = [("dump-sssp-4", dict(kind="sssp", n=4, w=(1, 2, 4), maxe=3), dict(edges=True, pairs="pairs2", walks=20000, walklen=60, budget=0)),
                 ("dump-sssp-3", dict(kind="sssp", n=3, w=(1, 2, 4, 8), maxe=6), dict(edges=True, pairs=None, walks=10000, walklen=40, budget=300000)),
                 ("dump-lpa-4h", dict(kind="lpa", n=4, w=(1, 2, 3), maxe=12, src=0, tgt=3, hsel=1, tiefree=False), dict(edges=True, pairs="pairs", walks=30000, walklen=60, budget=300000)),
                 ("dump-lpa-4", dict(kind="lpa", n=4, w=(1, 2), maxe=12, src=0, tgt=3, hsel=0, tiefree=False), dict(edges=True, pairs="pairs", walks=30000, walklen=60, budget=300000)),
                 ("dump-lpa-4far", dict(kind="lpa", n=4, w=(1, 2), maxe=12, src=0, tgt=1, hsel=2, tiefree=False), dict(edges=True, pairs="pairs", walks=30000, walklen=60, budget=0)),
                 ("dump-lpa-3", dict(kind="lpa", n=3, w=(1, 2, 3), maxe=6, src=0, tgt=2, hsel=0, tiefree=False), dict(edges=True, pairs="pairs", walks=10000, walklen=40, budget=500000)),
                 ("dump-lpad-3", dict(kind="lpad", n=3, w=(1, 2), maxe=6, src=0, tgt=2, hsel=0, tiefree=False), dict(edges=True, pairs="pairs", walks=10000, walklen=40, budget=300000)),
                 ("dump-lpad-4", dict(kind="lpad", n=4, w=(1, 2), maxe=4, src=0, tgt=3, hsel=0, tiefree=False), dict(edges=True, pairs=None, walks=20000, walklen=60, budget=0)),
                 ("dump-adj-4", dict(kind="adj", n=4, w=(0, 1, 2), maxe=6, tiefree=False), dict(edges=True, pairs=None, walks=10000, walklen=60, budget=0)),
                 ("dump-adj-3", dict(kind="adj", n=3, w=(0, 1, 2), maxe=6, tiefree=False), dict(edges=True, pairs="pairs2", walks=5000, walklen=40, budget=200000))]
        rec = [("sssp", 60, 300, 12), ("lpa", 60, 300, 12), ("lpad", 40, 300, 12), ("adj", 40, 300, 12),
               ("sssp", 60, 300, 12), ("lpa", 60, 300, 12)]

    # TLC phase: model checking sequentially with half the cores, dumps (1 worker each) beside it
    dump_out = {}

    def do_dump(item):
        name, c, _ = item
        with run.lock:
            run.dumps_active += 1
        try:
            dump_out[name] = _dump(run, name, **c)
        finally:
            with run.lock:
                run.dumps_active -= 1

    def do_mc():
        for name, c in contract:
            _mc_contract(run, name, **c)
        for name, module, cfg, mode, confirm in impl:
            _mc_impl(run, module, cfg, name, mode, confirm)

    with ThreadPoolExecutor(max_workers=max(2, ncpu // 2)) as ex:
        futs = [ex.submit(do_mc)] + [ex.submit(do_dump, d) for d in dumps]
        for f in futs:
            f.result()
    bt.join()
    if build_err:
        raise build_err[0]
    ck.set("pinned_variants_refuted_by_tlc", run.design)
    ck.set("assumption_demonstrations", run.assumption_demos)

    # ---- real class: TLC's counterexamples, the state graphs, recorded histories
    _confirm_on_real(run)
    log("[G01] TLC phase done after %.0fs" % (time.time() - ck.t0))
    nsh = max(1, min(ncpu, 8))
    with ThreadPoolExecutor(max_workers=ncpu) as ex:
        shard_futs = {}
        for name, c, how in dumps:
            gpath, nedges = dump_out[name]
            k = nsh if nedges > 3000 else max(1, nsh // 4)
            shard_futs[name] = [ex.submit(_replay_shard, run, c["kind"], gpath, i, k, how["edges"], how["pairs"], how["walks"],
                                          how["walklen"], how["budget"]) for i in range(k)]
        rec_futs = [ex.submit(_record, run, a[0], a[1], a[2], a[3], i) for i, a in enumerate(rec)]
        for name, c, how in dumps:
            _replay_collect(run, c["kind"], name, [f.result() for f in shard_futs[name]])
        for f in rec_futs:
            f.result()
    log("[G01] replay and trace validation done after %.0fs" % (time.time() - ck.t0))

    # ---- vacuity gates
    for k, v in run.metrics.items():
        ck.set("metric_" + k, v)
    for k, v in run.gates.items():
        ck.set("gate_" + k, v)
    needg = ["unreachable_answers_in_tables", "removal_that_disconnects", "removal_that_lengthens_a_used_shortest_path",
             "removal_orphaning_a_subtree", "insertion_that_shortens_a_shortest_path", "insertion_propagating_beyond_its_head"]
    missing = [g for g in needg if not run.gates.get(g)]
    if missing:
        raise FrameworkError("vacuity gate: never seen in the exported state graphs: %s" % missing)
    needm = ["lpa_computes_judged", "lpa_g_raised_by_a_search", "lpa_g_lowered_by_a_search", "sssp_steps_changing_a_cost"]
    missing = [m for m in needm if not run.metrics.get(m)]
    if missing:
        raise FrameworkError("vacuity gate: never observed on the real classes: %s" % missing)
    ck.set("exhaustive", True)
    ck.set("finding_kinds", dict(run.kinds_seen))
    ck.set("finding_observations", dict(run.kind_counts))
    return ck.finish()


def replay(path):
    """Re-execute a replay artefact: a scenario (.json: operation history) is run on the real class,
    logged as a trace and judged by TLC; a trace (.ndjson) is re-validated."""
    binary = build_harness("sssp", needs_lib=False, san="asan", extra=("-DNDEBUG", "-w"))
    tr = path
    if path.endswith(".json"):
        tr = os.path.join(WORK, "g01-replay-trace.ndjson")
        rc, out, err = run_cmd([binary, "scenario", path, tr], timeout=120)
        print(out[-4000:])
        if rc == 71:
            print("REPRODUCED: an operation of the real class does not return (endless loop)")
            return 1
        if rc != 0:
            print("REPRODUCED: harness exit code %s\n%s" % (rc, err[-3000:]))
            return 1
    rej = []
    acc, prefix, res = validate_trace("ds/DynamicGraphTrace", tr, json_sink=rej.append)
    seen = {}
    for r in rej:
        if isinstance(r, dict) and "reject" in r:
            seen[r["reject"]] = r
    for ln in sorted(seen):
        print("line %d rejected by the contract: %s" % (ln, seen[ln]))
    if not acc:
        print("trace not processed beyond line %s" % ((prefix or 0) + 1))
    print("REPRODUCED" if seen or not acc else "accepted: every answer is admitted by the contract")
    return 1 if seen or not acc else 0
