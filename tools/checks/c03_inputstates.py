"""C03 add-on - the input-state iterator and lazy goal sampling.

Property C03 ("interrupting, resuming or clearing a planner never corrupts its result") rests on
ompl::base::PlannerInputStates: it is what makes a resumed solve() consume every start state
once and find the goal states.  Two specifications, both bound to the real classes:

1. specs/base/InputStates.tla - the iterator over a scripted problem definition (starts with
   validity / bounds flags, GoalStates / idle GoalLazySamples / non-sampleable goal, a second
   definition for re-binding).  TLC checks the contract invariants and the action property
   StepContract and dumps the state graph; harness/inputstates.cpp replays every edge, every pair
   and seeded random walks on a real PlannerInputStates (stand-alone and as Planner::pis_) and
   judges contract observations only.
2. specs/base/GoalLazy.tla - sampling thread / planner thread in nextGoal(ptc) / stopSampling()
   with the lock: safety + liveness under fairness, with two defective variants as negative
   controls.  Bound by specs/base/GoalLazyTrace.tla validating executions recorded from the real
   GoalLazySamples (scripted sample function, logical gates, per-thread sequence numbers, no
   time stamps).

Use:  input_states(ck, tier)  from another check, or stand-alone
      python3 tools/checks/c03_inputstates.py quick|thorough   (evidence goes to .work/evidence/C03x.json)
"""
import concurrent.futures as cf
import json
import os
import shutil
import sys

sys.path.insert(0, os.path.dirname(os.path.dirname(os.path.abspath(__file__))))
import vlib  # noqa: E402
from vlib import Check, run_tlc, run_cmd, Graph, validate_trace, FrameworkError, log  # noqa: E402

ALL = ("ok", "inv", "oob")
IS_INVS = "TypeOK StartsExactlyOnce CountersExact GoalBound TempOwned"
GL_SAFETY = "TypeOK OnlyDifferent MaxSampleRespected ContractKept StopJoins LockExclusive ReturnedWasProduced"


def _rundir():
    """Scratch files of this run (cfgs, graphs, traces): per process, so that a stand-alone run and
    ./check C03 can share one work directory; removed at the end of input_states()."""
    return vlib.ensure_dir(os.path.join(vlib.WORK, "c03x-run-%d" % os.getpid()))


def _cfgdir():
    return _rundir()


def _set(xs):
    return "{" + ", ".join('"%s"' % x if isinstance(x, str) else str(x) for x in xs) + "}"


def _is_cfg(name, ms, mg, sflags, gflags, kinds, budgets, rebind, dump, invs=IS_INVS, prop=True):
    p = os.path.join(_cfgdir(), "is-" + name + ".cfg")
    body = ["SPECIFICATION Spec", "CONSTANTS", "  MaxStarts = %d" % ms, "  MaxGoals = %d" % mg,
            "  StartFlags = " + _set(sflags), "  GoalFlags = " + _set(gflags), "  GoalKinds = " + _set(kinds),
            "  Budgets = " + _set(budgets), "  Rebind = " + ("TRUE" if rebind else "FALSE"), "VIEW view"]
    if invs:
        body.append("INVARIANTS " + invs)
    if prop:
        body.append("PROPERTY StepContract")
    if dump:
        body.append("ACTION_CONSTRAINT Dump")
    open(p, "w").write("\n".join(body) + "\n")
    return p


def _gl_cfg(name, ids, mindist, nsamples, ncalls, recheck=True, locked=True, invs=GL_SAFETY, props=()):
    p = os.path.join(_cfgdir(), "gl-" + name + ".cfg")
    body = ["SPECIFICATION Spec", "CONSTANTS", "  Ids = " + _set(ids), "  MinDist = %d" % mindist,
            "  MaxSamples = %d" % nsamples, "  MaxCalls = %d" % ncalls, "  AllowStop = TRUE",
            "  Recheck = " + ("TRUE" if recheck else "FALSE"), "  LockedReads = " + ("TRUE" if locked else "FALSE"),
            "INVARIANTS " + invs]
    if props:
        body.append("PROPERTIES " + " ".join(props))
    open(p, "w").write("\n".join(body) + "\n")
    return p


# ----------------------------------------------------------------------------- build

def _build():
    """Like vlib.build_harness("inputstates"), but compile and link are separate steps so that
    ccache can serve the object file when neither the harness nor any header it includes changed
    (ccache hashes the included headers: an edit in REPO/src is still always picked up)."""
    import subprocess
    import time
    libdir = vlib.build_lib("plain")
    src = os.path.join(vlib.HARNESS, "inputstates.cpp")
    bindir = vlib.ensure_dir(os.path.join(vlib.WORK, "bin"))
    out = os.path.join(bindir, "inputstates")
    obj = out + ".%d.o" % os.getpid()
    t0 = time.time()
    cc = ["ccache", "g++", "-std=c++17", "-O1", "-g", "-D" + vlib.GUARD, "-Wno-deprecated-declarations",
          "-I" + os.path.join(vlib.REPO, "src"), "-I" + os.path.join(vlib.WORK, "build-plain", "src"),
          "-I/usr/include/eigen3", "-I" + os.path.join(vlib.HARNESS, "common"), "-c", src, "-o", obj]
    env = vlib._ccache_env()
    r = subprocess.run(cc, env=env, stdout=subprocess.PIPE, stderr=subprocess.STDOUT, text=True, cwd=vlib.VERIF)
    if r.returncode != 0:
        raise FrameworkError("harness inputstates failed to compile against %s:\n%s" % (vlib.REPO, r.stdout[-6000:]))
    tmp = out + ".tmp%d" % os.getpid()
    ld = ["g++", obj, "-o", tmp, "-L" + libdir, "-lompl", "-Wl,-rpath," + libdir, "-lboost_serialization",
          "-lboost_filesystem", "-lboost_system", "-lpthread"]
    r = subprocess.run(ld, stdout=subprocess.PIPE, stderr=subprocess.STDOUT, text=True)
    try:
        os.remove(obj)
    except OSError:
        pass
    if r.returncode != 0:
        raise FrameworkError("harness inputstates failed to link:\n%s" % r.stdout[-6000:])
    os.replace(tmp, out)
    log("[build] harness inputstates in %.1fs" % (time.time() - t0))
    return out


# ----------------------------------------------------------------------------- configurations

def _plan(tier):
    """(graphs to dump and replay, model-check-only runs) of InputStates.tla"""
    if tier == "quick":
        graphs = [  # name, MaxStarts, MaxGoals, start flags, goal flags, kinds, budgets, rebind, replay depth, walks
            ("starts", 3, 1, ALL, ("ok",), ("states",), (0,), False, "pairs", 1500),
            ("goals", 0, 4, ("ok",), ALL, ("states", "region"), (0, 2, 3, 4), False, "pairs", 1500),
            ("rebind", 2, 1, ("ok", "inv"), ("ok",), ("states",), (0,), True, "pairs", 1500),
            ("product", 2, 2, ("ok", "inv"), ("ok", "inv"), ("states",), (0, 2), False, "pairs", 1500),
        ]
        mcs = [("mc-product", 2, 2, ALL, ALL, ("states", "region"), (0, 2), True, 2)]
    else:
        graphs = [
            ("starts", 3, 2, ALL, ("ok", "inv"), ("states",), (0, 2), True, "pairs", 20000),
            ("goals", 1, 4, ("ok", "inv"), ALL, ("states", "region"), (0, 1, 2, 3, 4), False, "pairs", 20000),
            ("rebind", 2, 1, ALL, ("ok",), ("states", "region"), (0,), True, "pairs", 20000),
            ("product", 2, 2, ALL, ALL, ("states", "region"), (0, 2), True, "pairs", 20000),
        ]
        mcs = [("mc-product33", 3, 3, ALL, ALL, ("states", "region"), (0, 2, 3), True, max(2, vlib.NCPU - 2))]
    return graphs, mcs


def _parse(out, tag):
    rows = []
    for line in out.splitlines():
        if line.startswith(tag + " "):
            try:
                rows.append(json.loads(line[len(tag) + 1:]))
            except ValueError:
                pass
    return rows


def _dump_graph(spec):
    name, ms, mg, sf, gf, kinds, budgets, rebind = spec[:8]
    edges = []
    res = run_tlc("base/InputStates", cfg=_is_cfg(name, ms, mg, sf, gf, kinds, budgets, rebind, True), workers=1,
                  timeout=3000, json_sink=edges.append)
    if res.error:
        raise FrameworkError(res.error)
    if res.violated:
        raise FrameworkError("InputStates.tla (%s): the transcribed algorithm violates %s:\n%s" % (name, res.violated, res.out[-1500:]))
    g = Graph(edges)
    g.check_connected()
    gpath = g.write(os.path.join(_rundir(), "graph-%s.ndjson" % name))
    return name, res, g, gpath


def _mc(spec):
    name, ms, mg, sf, gf, kinds, budgets, rebind, workers = spec
    res = run_tlc("base/InputStates", cfg=_is_cfg(name, ms, mg, sf, gf, kinds, budgets, rebind, False), workers=workers, timeout=3000)
    if res.error:
        raise FrameworkError(res.error)
    if res.violated:
        raise FrameworkError("InputStates.tla (%s): the transcribed algorithm violates %s:\n%s" % (name, res.violated, res.out[-1500:]))
    return name, res


def _gl_runs(tier):
    live = ("CallReturns", "PtcEndsCall", "SamplerEnds", "NoWaitOnEmpty", "NoLostSample")
    if tier == "quick":
        return [("safety", _gl_cfg("safety", (1, 2, 3), 1, 3, 2), 2, None),
                ("liveness", _gl_cfg("liveness", (1,), 0, 2, 2, props=live), 1, None),
                ("neg-norecheck", _gl_cfg("neg-norecheck", (1,), 0, 1, 1, recheck=False), 1, "ContractKept")]
    return [("safety", _gl_cfg("safety", (1, 2, 3), 1, 4, 3), max(2, vlib.NCPU // 2), None),
            ("safety-eps", _gl_cfg("safety-eps", (1, 2), 0, 4, 3), 2, None),
            ("liveness", _gl_cfg("liveness", (1, 2), 0, 3, 2, props=live), 2, None),
            ("neg-norecheck", _gl_cfg("neg-norecheck", (1, 2), 0, 2, 2, recheck=False), 1, "ContractKept"),
            ("neg-nolock", _gl_cfg("neg-nolock", (1, 2), 0, 2, 2, locked=False), 1, "ContractKept"),
            ("note-threadptr", _gl_cfg("note-threadptr", (1,), 0, 1, 1, invs="NoThreadPtrRace"), 1, "NoThreadPtrRace")]


def _gl(run):
    name, cfg, workers, expect = run
    res = run_tlc("base/GoalLazy", cfg=cfg, workers=workers, timeout=3000)
    if res.error:
        raise FrameworkError(res.error)
    if expect is None and res.violated:
        raise FrameworkError("GoalLazy.tla (%s): the faithful model violates %s:\n%s" % (name, res.violated, res.out[-2500:]))
    if expect is not None and res.violated != expect:
        raise FrameworkError("vacuity gate: GoalLazy.tla control '%s' should violate %s, TLC says %s" % (name, expect, res.violated))
    return name, res


def _design_note():
    """The open question GoalSweepComplete (see InputStates.tla): expected to be violated."""
    cfg = _is_cfg("sweep", 0, 3, ("ok",), ("ok",), ("states",), (0,), False, False, invs="GoalSweepComplete", prop=False)
    res = run_tlc("base/InputStates", cfg=cfg, workers=1, timeout=600)
    if res.error:
        raise FrameworkError(res.error)
    return res


# ----------------------------------------------------------------------------- replay (spec -> impl)

VARIANTS = [("standalone", "states"), ("member", "lazy")]
NEED_COUNTS = ["nextStartRet", "nextStartNull", "startSkips", "lateStarts", "nullAgain", "nextGoalRet", "nextGoalNull",
               "goalSkips", "rebinds", "useNoop", "clears", "restarts", "tempFreedOnClear", "ptcGoalCalls", "plainGoalCalls"]


def _replay(binary, gname, gpath, depth, walks, variant):
    rc, out, err = run_cmd([binary, "replay", gpath, depth, str(walks), variant[0], variant[1]], timeout=3000)
    return gname, variant, rc, out, err


def _judge_replay(ck, totals, gname, gpath, variant, rc, out, err):
    label = "%s-%s-%s" % (gname, variant[0], variant[1])
    summ = _parse(out, "SUMMARY")
    if not summ:
        if "CRASH" in out or rc in (70, 77, 78) or (rc < 0 and rc != -999):
            rp = ck.replay_file("inputstates-graph-%s.ndjson" % label)
            shutil.copyfile(gpath, rp)
            ck.violation("inputstates:crash:" + gname, "input-state harness crashed while replaying specification scenarios (%s): %s"
                         % (label, (out + err)[-600:]), rp)
            return
        raise FrameworkError("inputstates replay %s produced no summary (rc=%s): %s" % (label, rc, (out + err)[-2000:]))
    summ = summ[0]
    ck.add("traces_validated_against_impl", summ["scenarios"])
    ck.add("inputstates_replayed_steps", summ["steps"])
    for k, v in summ.items():
        if isinstance(v, int) and not isinstance(v, bool) and k not in ("scenarios", "steps", "edges", "states"):
            totals[k] = totals.get(k, 0) + v
    if summ["failures"]:
        seen = set()
        for f in _parse(out, "FAIL"):
            clause = f["why"].split(" ", 1)[0]
            if clause in seen:
                continue
            seen.add(clause)
            rp = ck.replay_file("inputstates-%s-%s.json" % (label, clause.replace(":", "_")),
                                json.dumps({"kind": "inputstates-scenario", "graph": gname, "variant": list(variant),
                                            "why": f["why"], "scenario": f["scenario"]}, indent=1))
            ck.violation("inputstates:" + clause,
                         "%d of %d specification scenarios fail on the real PlannerInputStates (%s); history %s: %s"
                         % (summ["failures"], summ["scenarios"], label,
                            " ".join(s["a"] + ("(%s)" % ",".join(str(v) for v in s["args"].values()) if isinstance(s["args"], dict) and s["args"] else "")
                                     for s in f["scenario"]), f["why"].split(" ", 1)[-1]), rp)
    else:
        ck.sample({"kind": "replayed InputStates graph", "graph": gname, "variant": "/".join(variant),
                   "edges": summ["edges"], "states": summ["states"], "scenarios": summ["scenarios"]})


# ----------------------------------------------------------------------------- lazy goal sampling (impl -> spec)

def _lazy(ck, binary, nexec):
    tpath = os.path.join(_rundir(), "lazy-trace.ndjson")
    rc, out, err = run_cmd([binary, "lazy", tpath, str(nexec)], timeout=900)
    if rc == -999:
        raise FrameworkError("lazy goal-sampling recorder did not finish within its (generous) time limit; "
                             "not a verdict: re-run, and inspect %s" % tpath)
    rec = _parse(out, "RECORDED")
    if rc != 0 or not rec:
        if os.path.exists(tpath) and ("CRASH" in out or rc in (70, 77, 78) or rc < 0):
            rp = ck.replay_file("goallazy-crash-trace.ndjson")
            shutil.copyfile(tpath, rp)
            ck.violation("goallazy:crash", "GoalLazySamples / nextGoal(ptc) crashed under a scripted execution: " + (err or out)[-600:], rp)
            return
        raise FrameworkError("lazy recorder failed (rc=%s): %s" % (rc, (out + err)[-2000:]))
    rec = rec[0]
    rows = vlib.read_ndjson(tpath)
    bad = []
    acc, prefix, res = validate_trace("base/GoalLazyTrace", tpath, timeout=1800, json_sink=bad.append)
    if not acc:
        raise FrameworkError("lazy trace not consumed (event %s: %s): %s" %
                             (prefix + 1, json.dumps(rows[prefix])[:300] if prefix is not None and prefix < len(rows) else "?", res.out[-1500:]))
    # attribute each judged line to its execution
    owner, cur = [], 0
    for i, r in enumerate(rows):
        if r["e"] == "Reset":
            cur = i
        owner.append(cur)
    seen = set()
    for b in bad:
        for clause in sorted(b["failed"]):
            if clause in seen:
                continue
            seen.add(clause)
            i0 = owner[b["line"] - 1]
            i1 = next((j for j in range(i0 + 1, len(rows)) if rows[j]["e"] == "Reset"), len(rows))
            rp = ck.replay_file("goallazy-%s-trace.ndjson" % clause)
            vlib.write_ndjson(rp, rows[i0:i1])
            ck.violation("goallazy:" + clause,
                         "recorded execution %s of the real GoalLazySamples / nextGoal(ptc) breaks contract clause '%s' at event %s"
                         % (rows[i0].get("exec"), clause, json.dumps(rows[b["line"] - 1])), rp)
    execs = sum(1 for r in rows if r["e"] == "Reset")
    ck.add("traces_validated_against_impl", execs)
    rets = [r for r in rows if r["e"] == "Ret"]
    samples = [r for r in rows if r["e"] == "Sample"]
    ends = [r for r in rows if r["e"] == "End"]
    cov = {
        "executions": execs, "events": len(rows),
        "calls_that_waited": sum(1 for r in rets if r["evals"] >= 2),
        "goals_returned": sum(1 for r in rets if r["id"] != 0),
        "goals_returned_after_waiting": sum(1 for r in rets if r["id"] != 0 and r["evals"] >= 2),
        "null_by_ptc": sum(1 for r in rets if r["id"] == 0 and r["ptc"]),
        "null_because_sampling_ended_empty": sum(1 for r in rets if r["id"] == 0 and not r["ptc"] and not r["wd"] and r["n"] == 0),
        "documented_wait_on_exhausted_goal": sum(1 for r in rets if r["wd"]),
        "stop_sampling_calls": sum(1 for r in rows if r["e"] == "StopRet"),
        "samples_after_stop_flag": 0,
        "candidates_rejected_as_duplicates": 0, "candidates_invalid": sum(1 for r in samples if r["more"] and not r["valid"]),
        "list_accesses_under_lock": sum(r["locked"] for r in ends), "list_accesses_without_lock": sum(r["unlocked"] for r in ends),
    }
    md = 0
    stopcall = False
    for r in rows:
        if r["e"] == "Reset":
            md, stopcall = r["minDist"], False
        elif r["e"] == "StopCall":
            stopcall = True
        elif r["e"] == "Sample":
            if stopcall and r["more"]:
                cov["samples_after_stop_flag"] += 1
            if r["more"] and r["valid"] and any(abs(x - r["id"]) <= md for x in r["list"]):
                cov["candidates_rejected_as_duplicates"] += 1
    ck.set("goallazy_trace", cov)
    for k in ("calls_that_waited", "goals_returned_after_waiting", "null_by_ptc", "null_because_sampling_ended_empty",
              "documented_wait_on_exhausted_goal", "stop_sampling_calls", "candidates_rejected_as_duplicates",
              "candidates_invalid", "list_accesses_under_lock"):
        if cov[k] == 0 and not ck.violations:
            raise FrameworkError("vacuity gate: lazy goal-sampling executions never showed '%s' (%s)" % (k, cov))
    ck.sample({"kind": "recorded lazy-goal execution", "events": [
        {k: v for k, v in r.items() if k in ("e", "thr", "seq", "id", "valid", "more", "list", "ptc", "sampling", "n", "count")}
        for r in rows[owner[min(len(rows) - 1, 12)]:][:9]]})


# ----------------------------------------------------------------------------- entry points

def input_states(ck, tier):
    """Run the add-on and record states / scenarios / violations in `ck` (a vlib.Check)."""
    ck.assumptions += [
        "input states: the problem definition changes between solves only in the documented ways (start states appended, "
        "goal states appended to a GoalSampleableRegion); nextStart/nextGoal are called on a bound iterator",
        "lazy goals: the sample function is user code called by one thread; GoalStates::clear() is not called while a planner "
        "iterates; the mutex is fair enough that a thread finding it free again and again gets it (strong fairness)",
    ]
    graphs, mcs = _plan(tier)
    glruns = _gl_runs(tier)
    totals = {}
    acts = {}
    pool = cf.ThreadPoolExecutor(max_workers=max(2, vlib.NCPU))
    try:
        f_build = pool.submit(_build)
        f_graphs = [pool.submit(_dump_graph, g) for g in graphs]
        f_mcs = [pool.submit(_mc, m) for m in mcs]
        f_gl = [pool.submit(_gl, r) for r in glruns]
        f_note = pool.submit(_design_note)
        binary = f_build.result()
        # the fresh-iterator probe and the lazy recorder need only the binary
        f_probe = pool.submit(run_cmd, [binary, "probe"], 300)
        f_replays = []
        spec_of = {g[0]: g for g in graphs}
        for f in cf.as_completed(f_graphs):
            name, res, g, gpath = f.result()
            ck.tlc(res, "inputstates-" + name)
            per = {}
            for e in g.edges:
                per[e["a"]] = per.get(e["a"], 0) + 1
                acts[e["a"]] = acts.get(e["a"], 0) + 1
            ck.set("inputstates_graph_" + name, {"states": len(g.ids), "edges": len(g.edges), "edges_per_action": per})
            depth, walks = spec_of[name][8], spec_of[name][9]
            for i, v in enumerate(VARIANTS):
                f_replays.append((gpath, pool.submit(_replay, binary, name, gpath, depth if i == 0 else "edges",
                                                     walks if i == 0 else max(200, walks // 4), v)))
        need = {"AddStart", "SetGoal", "AddGoal", "SetPlannerPdef", "Use", "Update", "Clear", "Restart", "NextStart", "NextGoal"}
        if need - set(acts):
            raise FrameworkError("vacuity gate: InputStates.tla actions never taken: %s" % sorted(need - set(acts)))
        for f in f_mcs:
            name, res = f.result()
            ck.tlc(res, "inputstates-" + name)
        for f in f_gl:
            name, res = f.result()
            ck.tlc(res, "goallazy-" + name)
        note = f_note.result()
        ck.set("inputstates_design_note_goal_sweep",
               "GoalSweepComplete %s: after restart() following a partial sweep, a goal state appended later can be skipped while an "
               "earlier one is drawn again (GoalStates' cursor and the iterator's counter disagree); not part of the verdict"
               % ("violated" if note.violated else "holds"))
        # probe
        rc, out, err = f_probe.result()
        ps = _parse(out, "SUMMARY")
        if not ps:
            raise FrameworkError("inputstates probe produced no summary (rc=%s): %s" % (rc, (out + err)[-1500:]))
        ck.add("traces_validated_against_impl", 1)
        if ps[0]["failures"]:
            first = (_parse(out, "PROBE") or [{}])[0]
            rp = ck.replay_file("inputstates-probe.json", json.dumps({"kind": "inputstates-probe", "observed": first}, indent=1))
            ck.violation("inputstates:Init:counter",
                         "a planner that was never given a problem definition reports consumed input states "
                         "(getSeenStartStatesCount()=%s, getSampledGoalsCount()=%s on poisoned storage): counters not initialised"
                         % (first.get("seen"), first.get("sampled")), rp)
        # replays
        for gpath, f in f_replays:
            gname, variant, rc, out, err = f.result()
            _judge_replay(ck, totals, gname, gpath, variant, rc, out, err)
        ck.set("inputstates_replay_counts", totals)
        if not ck.violations:
            missing = [k for k in NEED_COUNTS if totals.get(k, 0) == 0]
            if missing:
                raise FrameworkError("vacuity gate: the replay never observed %s (%s)" % (missing, totals))
        # lazy goal sampling
        _lazy(ck, binary, 150 if tier == "quick" else 1500)
    finally:
        pool.shutdown(wait=True)
        shutil.rmtree(_rundir(), ignore_errors=True)


def replay(path):
    """Re-execute a replay artefact written by this add-on."""
    if path.endswith(".ndjson") and "goallazy" in os.path.basename(path):
        bad = []
        acc, prefix, res = validate_trace("base/GoalLazyTrace", path, json_sink=bad.append)
        fails = sorted({c for b in bad for c in b["failed"]})
        print("re-validated:", ("REJECTED %s" % fails) if fails or not acc else "accepted")
        return 1 if fails or not acc else 0
    binary = _build()
    if path.endswith(".ndjson"):
        rc, out, err = run_cmd([binary, "replay", path, "edges", "200", "standalone", "states"])
        print(out[-3000:])
        return 1 if rc else 0
    d = json.load(open(path))
    if d.get("kind") == "inputstates-probe":
        rc, out, err = run_cmd([binary, "probe"])
        print(out[-2000:])
        return 1 if rc else 0
    # a failing scenario: regenerate its graph (quick or thorough plan) and re-run that variant
    for tier in ("quick", "thorough"):
        for g in _plan(tier)[0]:
            if g[0] == d["graph"]:
                name, res, gr, gpath = _dump_graph(g)
                rc, out, err = run_cmd([binary, "replay", gpath, g[8], "200"] + list(d["variant"]))
                print(json.dumps(d["scenario"]))
                print(out[-3000:])
                if rc:
                    return 1
    return 0


def main():
    tier = sys.argv[1] if len(sys.argv) > 1 else "quick"
    if tier not in ("quick", "thorough"):
        print("usage: c03_inputstates.py quick|thorough")
        return 2
    # stand-alone evidence never goes to /verif/evidence
    vlib.EVID = vlib.ensure_dir(os.path.join(vlib.WORK, "evidence"))
    os.chdir(vlib.VERIF)
    ck = Check("C03x", tier, "model_checking")
    # the add-on belongs to property C03: honour that property's ledger of known findings
    ck.findings = [f for f in vlib.load_findings() if f.get("property") == "C03" and f.get("status") == "known"]
    try:
        input_states(ck, tier)
    except FrameworkError as ex:
        print("FRAMEWORK-ERROR C03x: %s" % ex)
        return 2
    return ck.finish()


if __name__ == "__main__":
    sys.exit(main())
