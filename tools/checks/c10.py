"""C10 - nearest-neighbour structures answer exactly like exhaustive search.

1. TLC checks the contract ds/NearestNeighbors.tla (bag of [pt, uid] elements; Add, AddMany,
   Remove, RemoveAbsent, Clear; answer tables for nearest / nearestK / nearestR / list / size) for
   internal consistency and exports its complete state graph with the tables (M3').
2. harness/nn.cpp walks EVERY path up to a depth through that graph on NearestNeighborsGNAT,
   ...GNATNoThreadSafety, ...Linear and ...SqrtApprox under the tree-parameter matrix of DESIGN
   C10, issuing the full query battery at the end of every path (plain -O2 build), plus long
   random walks with the battery after every step (ASan/UBSan build).
3. Random histories (~1000 operations per execution) recorded from every structure x parameter set
   are validated by TLC against the contract (ds/NearestNeighborsTrace.tla); TLC keeps the bag and
   computes brute force itself.

4. GreedyKCenters (pivot selection of every GNAT split): ds/GreedyKCenters.tla enumerates every
   multiset of <= N points x k x first centre x tie choice; every terminal state is an admissible
   answer; the real class is replayed on every case until each first centre was drawn.
5. M4 audit: the internal structure of the GNATs is dumped after every mutation of random histories
   and TLC evaluates ds/GnatAudit.tla on it (range tables / radii conservative, removal cache inside
   the tree and never a pivot, size_ consistent).  Keys "audit:<invariant>:<structure>:<params>".

Violations are keyed "<observation>:<structure>:<params>".  Failures that follow the stale
removal-cache condition of the GNATs (DESIGN section 5, D5: the cache keeps addresses into a leaf
vector that reallocates when degree > maxNumPtsPerLeaf) are keyed
"gnat-removed-cache:<structure>:<params>".
"""
import json
import os
import shutil
import subprocess
import threading
import time
from concurrent.futures import ThreadPoolExecutor

import vlib
from vlib import Check, run_tlc, run_cmd, build_harness, Graph, validate_trace, FrameworkError, WORK, log

PID = "C10"

STRUCTS = ["gnat", "gnat-nts", "linear", "sqrt"]
PARAMS = ["default", "2-2-2-1-1-off", "2-2-4-2-2-on", "4-2-6-2-3-off", "3-2-5-1-500-off", "6-4-8-2-4-on",
          "2-2-2-3-2-off"]
COMBOS = [(s, p) for s in ("gnat", "gnat-nts") for p in PARAMS] + [("linear", "-"), ("sqrt", "-")]

# named configurations of the spec (operators in NearestNeighbors.tla): points, copies, size bound
CONFIGS = {
    "line4": ("Line4", 2, 8),          # 81 bags
    "dup2": ("Dup2", 4, 8),            # 25 bags, up to four coinciding elements
    "cluster6": ("Cluster6", 2, 12),   # 729 bags, tight clusters far apart
    "lattice9": ("Lattice9", 1, 9),    # 512 bags, L1 ties
}
DEEP_COMBOS = [("gnat", "2-2-4-2-2-on"), ("gnat-nts", "3-2-5-1-500-off")]
GNAT_COMBOS = [c for c in COMBOS if c[0].startswith("gnat")]
# where splits, pivot removal and cached removals are frequent at small sizes (+ the two plain structures)
BUSY_COMBOS = [(s, p) for s in ("gnat", "gnat-nts") for p in ("2-2-2-1-1-off", "2-2-4-2-2-on", "3-2-5-1-500-off")] + \
              [("linear", "-"), ("sqrt", "-")]
NOT_DEFAULT = [c for c in COMBOS if c[1] != "default"]
AUDIT_INVARIANTS = ["DumpWellFormed", "RemovedSubsetOfTree", "NoRemovedPivot", "SizeConsistent", "RadiiConservative",
                    "RangeTablesConservative"]
KC_INVARIANTS = "TypeOK Distinct TerminalIsAnswer Progress EarlyStopOnlyWhenCovered Separated TwoApproximation"
# parameter sets with degree > maxNumPtsPerLeaf and a removal cache of at least 2 (see D5)
CACHE_RELATION = {"4-2-6-2-3-off", "3-2-5-1-500-off", "6-4-8-2-4-on"}
ACTIONS = {"Add", "AddMany", "Remove", "RemoveAbsent", "Clear"}
INVARIANTS = ("TypeOK Canonical KSorted KLen KPrefix RPrefixOfK RMonotone RBounded NearestIsK1 ApproxWeaker "
              "SizeAgrees KSubBag RAnswerAgrees ListAgrees")
UTIL_SOURCES = ["RandomNumbers", "Console", "ProlateHyperspheroid", "GeometricEquations"]


def _cfg(name, config, dump, subsets):
    pts, copies, size = CONFIGS[config]
    d = vlib.ensure_dir(os.path.join(WORK, "cfg-c10"))
    p = os.path.join(d, name + ".cfg")
    body = ["SPECIFICATION Spec", "CONSTANTS", "  PtSeq <- %s" % pts, "  MaxCopies = %d" % copies,
            "  MaxSize = %d" % size, "  Bulks <- %sBulks" % pts, "  QSeq <- %sQ" % pts, "  RSeq <- Radii",
            "  CheckSubsets = %s" % ("TRUE" if subsets else "FALSE"), "VIEW View"]
    if dump:
        body.append("ACTION_CONSTRAINT Dump")
    else:
        body += ["INVARIANTS " + INVARIANTS, "PROPERTY StepContract"]
    with open(p, "w") as f:
        f.write("\n".join(body) + "\n")
    return p


# ------------------------------------------------------------------ building
def _util_objects():
    """GreedyKCenters draws pivots from ompl::RNG; compile the few util sources it needs instead of
    building all of libompl (each through ccache, in parallel)."""
    odir = vlib.ensure_dir(os.path.join(WORK, "c10-obj"))
    cfgdir = vlib._config_dir()
    procs = []
    for u in UTIL_SOURCES:
        src = os.path.join(vlib.REPO, "src", "ompl", "util", "src", u + ".cpp")
        obj = os.path.join(odir, u + ".o")
        cmd = ["ccache", "g++", "-std=c++17", "-O2", "-g", "-c", "-D" + vlib.GUARD, "-Wno-deprecated-declarations",
               "-I" + os.path.join(vlib.REPO, "src"), "-I" + cfgdir, "-I/usr/include/eigen3", src, "-o", obj]
        procs.append((obj, subprocess.Popen(cmd, env=vlib._ccache_env(), stdout=subprocess.PIPE,
                                            stderr=subprocess.STDOUT, text=True)))
    objs = []
    for obj, p in procs:
        out, _ = p.communicate()
        if p.returncode != 0:
            raise FrameworkError("cannot compile ompl util source for the nn harness:\n" + out[-3000:])
        objs.append(obj)
    return objs


def _compile(san, objs, probe):
    """Compile harness/nn.cpp (as its own ccache-able step: on an unchanged tree the second run
    costs a second; any change of the harness or of a header of the tree under test is a miss,
    ccache hashes the preprocessed source) and link it with the util objects."""
    src = os.path.join(vlib.HARNESS, "nn.cpp")
    tag = ("-" + san if san else "") + ("" if probe else "-noprobe")
    obj = os.path.join(vlib.ensure_dir(os.path.join(WORK, "c10-obj")), "nn%s.o" % tag)
    out = os.path.join(vlib.ensure_dir(os.path.join(WORK, "bin")), "nn" + ("-" + san if san else ""))
    sanflags = ["-fsanitize=address,undefined", "-fno-omit-frame-pointer", "-fno-sanitize-recover=undefined"] if san else []
    cmd = ["ccache", "g++", "-std=c++17", "-O1" if san else "-O2", "-g", "-D" + vlib.GUARD, "-Wno-deprecated-declarations",
           "-I" + os.path.join(vlib.REPO, "src"), "-I" + vlib._config_dir(), "-I/usr/include/eigen3",
           "-I" + os.path.join(vlib.HARNESS, "common")] + sanflags + (["-DNN_PROBE"] if probe else []) + \
          ["-c", src, "-o", obj]
    t0 = time.time()
    r = subprocess.run(cmd, env=vlib._ccache_env(), stdout=subprocess.PIPE, stderr=subprocess.STDOUT, text=True)
    if r.returncode != 0:
        raise FrameworkError("harness nn failed to compile against %s:\n%s" % (vlib.REPO, r.stdout[-6000:]))
    tmp = out + ".tmp%d" % os.getpid()
    r = subprocess.run(["g++", obj] + list(objs) + sanflags + ["-o", tmp, "-lpthread"], stdout=subprocess.PIPE,
                       stderr=subprocess.STDOUT, text=True)
    if r.returncode != 0:
        raise FrameworkError("harness nn failed to link:\n%s" % r.stdout[-6000:])
    os.replace(tmp, out)
    log("[build] harness nn%s in %.1fs" % (" (" + san + ")" if san else "", time.time() - t0))
    return out


def _build_one(san, objs):
    """-> (binary, probe available).  The probe (-DNN_PROBE) reads protected members of the GNATs;
    if a refactoring renamed them the contract check still runs, only the counting of internal
    transitions and the M4 audit are lost."""
    try:
        return _compile(san, objs, True), True
    except FrameworkError as ex:
        log("[C10] probe build failed, building without it: %s" % str(ex)[-400:])
        return _compile(san, objs, False), False


# ------------------------------------------------------------------ model
def _dump_worker(config):
    """Dump the state graph of one configuration, gate it, write it.  (Worker thread: no forking
    once threads exist - run_tlc is thread-safe.)  -> (TlcResult without output, path, info)"""
    edges = []
    res = run_tlc("ds/NearestNeighbors", cfg=_cfg("dump-" + config, config, True, False), workers=1, timeout=1800,
                  json_sink=edges.append, heap="1g")
    if res.error:
        raise FrameworkError(res.error)
    if res.violated:
        raise FrameworkError("dump run of %s reports %s" % (config, res.violated))
    g = Graph(edges)
    g.check_connected()
    acts = {}
    for e in g.edges:
        acts[e["a"]] = acts.get(e["a"], 0) + 1
    if ACTIONS - set(acts):
        raise FrameworkError("vacuity gate: actions never taken in the model %s: %s" % (config, sorted(ACTIONS - set(acts))))
    tables = {e["d"] for e in g.edges if isinstance(e["exp"], dict) and "n" in e["exp"]}
    if len(tables) != len(g.ids):
        raise FrameworkError("graph %s: %d states but %d answer tables" % (config, len(g.ids), len(tables)))
    gpath = g.write(os.path.join(WORK, "c10-%s.ndjson" % config))
    res.out = ""
    return res, gpath, {"states": len(g.ids), "edges": len(g.edges), "edges_per_action": acts}


def _mc_worker(config, subsets):
    """Worker thread: the contract's consistency invariants on one configuration."""
    res = run_tlc("ds/NearestNeighbors", cfg=_cfg("mc-" + config, config, False, subsets), workers=4, timeout=3000,
                  heap="2g")
    if res.error:
        raise FrameworkError(res.error)
    if res.violated:
        raise FrameworkError("the contract specification is inconsistent: %s violated in %s\n%s"
                             % (res.violated, config, res.out[-2000:]))
    res.out = ""
    return res


def _model(ck, mcs, configs):
    """Model-check the contract and dump the state graphs (TLC runs side by side)."""
    graphs = {}
    with ThreadPoolExecutor(4) as exr:
        dumps = {c: exr.submit(_dump_worker, c) for c in configs}
        checks = {c: exr.submit(_mc_worker, c, subsets) for c, subsets in mcs}
        for c, f in dumps.items():
            res, gpath, info = f.result()
            ck.tlc(res, "dump-" + c)
            ck.set("graph_" + c, info)
            graphs[c] = gpath
        for c, f in checks.items():
            ck.tlc(f.result(), "mc-" + c)
    return graphs


def _parse_lines(out, tag):
    rows = []
    for line in out.splitlines():
        if line.startswith(tag + " "):
            try:
                rows.append(json.loads(line[len(tag) + 1:]))
            except ValueError:
                pass
    return rows


class Agg:
    """Collects the outcome of all replay / record jobs."""

    def __init__(self):
        self.fails = {}        # key -> dict(count, first)
        self.probe = {}        # counter -> sum over GNAT combos
        self.probe_by_params = {}
        self.scenarios = 0
        self.exhaustive = 0
        self.steps = 0
        self.queries = 0
        self.crashes = []
        self.lock = threading.Lock()

    def add_fail(self, f, config):
        cur = self.fails.setdefault(f["key"], {"count": 0, "first": None})
        cur["count"] += f.get("count", 1)
        if cur["first"] is None or len(f["scenario"]) < len(cur["first"]["scenario"]):
            cur["first"] = dict(f, config=config)

    def add_probe(self, structure, params, pr):
        if structure not in ("gnat", "gnat-nts"):
            return
        mine = self.probe_by_params.setdefault(params, {})
        for k, v in pr.items():
            if k.startswith("max_"):
                self.probe[k] = max(self.probe.get(k, 0), v)
                mine[k] = max(mine.get(k, 0), v)
            elif k != "queries":
                self.probe[k] = self.probe.get(k, 0) + v
                mine[k] = mine.get(k, 0) + v


def _replay_job(agg, binary, config, gpath, depth, structure, params, walks, walklen, alphabet, reuse, seed_env,
                shard="0/1"):
    t0 = time.time()
    rc, out, err = run_cmd([binary, "replay", gpath, str(depth), structure, params, str(walks), str(walklen), alphabet,
                            str(reuse), shard], timeout=7200, env={"VERIF_SEED": str(seed_env)})
    summ = _parse_lines(out, "SUMMARY")
    label = "%s:%s" % (structure, params)
    with agg.lock:
        if not summ:
            if rc in (-999, -9):
                raise FrameworkError("nn replay timed out / was killed (rc=%s, %s on %s depth %s)" % (rc, label, config, depth))
            if "CRASH" in out or rc in (70, 77, 78) or rc < 0:
                agg.crashes.append((label, config, depth, walks, alphabet, reuse, (err or out)[-1500:]))
                return
            raise FrameworkError("nn replay produced no summary (rc=%s, %s on %s): %s"
                                 % (rc, label, config, (out + err)[-2000:]))
        for c in _parse_lines(out, "COMBO"):
            agg.scenarios += c["scenarios"]
            agg.exhaustive += c["exhaustive_paths"]
            agg.steps += c["steps"]
            agg.queries += c["probe"]["queries"]
            agg.add_probe(c["structure"], c["params"], c["probe"])
        for f in _parse_lines(out, "FAILKEY"):
            agg.add_fail(f, config)
    return time.time() - t0


def _record_one(binary, idx, structure, params, nexec, nops):
    """Record random histories (with observations) from one structure x parameter set."""
    tpath = os.path.join(WORK, "c10-trace-%s-%s.ndjson" % (structure, params.replace("-", "_") if params != "-" else "x"))
    rc, out, err = run_cmd([binary, "record", tpath, structure, params, str(nexec), str(nops)], timeout=1800,
                           env={"VERIF_SEED": str(vlib.seed() * 131 + idx)})
    if rc in (-999, -9):
        raise FrameworkError("nn record timed out / was killed on %s:%s" % (structure, params))
    rec = _parse_lines(out, "RECORDED")
    info = {"structure": structure, "params": params, "trace": tpath, "crashed": rc != 0 or not rec,
            "stderr": (err or out)[-1500:], "rec": rec[0] if rec else None, "accepted": None, "prefix": None}
    if info["crashed"]:
        # a sanitizer abort does not flush the trace: keep the complete lines and close the file
        # with the Crash event the recorder could not write (no action of the trace spec matches it)
        good = []
        if os.path.exists(tpath):
            for line in open(tpath, errors="replace"):
                try:
                    good.append(json.loads(line))
                except ValueError:
                    break
        if not good or good[-1].get("e") != "Crash":
            good.append({"e": "Crash", "what": "recorder exited with status %s" % rc})
        vlib.write_ndjson(tpath, good)
    info["events"] = sum(1 for _ in open(tpath))
    return info


def _validate_worker(paths, gname):
    """Worker thread: TLC validates the concatenation of some recorded traces (every trace starts
    with a Reset line) against the contract.  -> (accepted, matched prefix)"""
    if len(paths) == 1:
        tpath = paths[0]
    else:
        tpath = os.path.join(WORK, "c10-tracegroup-%s.ndjson" % gname)
        with open(tpath, "w") as out:
            for q in paths:
                with open(q) as f:
                    shutil.copyfileobj(f, out)
    acc, prefix, res = validate_trace("ds/NearestNeighborsTrace", tpath, timeout=3000, heap="2g")
    return acc, prefix


def _validate_traces(infos, group):
    """Validate the recorded traces, several per TLC run; a rejected group is validated again trace by
    trace so that the rejection is pinned to its structure x parameter set."""
    groups = [infos[i::max(1, (len(infos) + group - 1) // group)] for i in range(max(1, (len(infos) + group - 1) // group))]
    with ThreadPoolExecutor(max(1, min(vlib.NCPU, 6))) as exr:
        futs = [(g, exr.submit(_validate_worker, [i["trace"] for i in g], str(n))) for n, g in enumerate(groups)]
        again = []
        for g, f in futs:
            acc, prefix = f.result()
            if acc:
                for i in g:
                    i["accepted"] = True
            else:
                again += g
        futs = [(i, exr.submit(_validate_worker, [i["trace"]], "x")) for i in again]
        for i, f in futs:
            i["accepted"], i["prefix"] = f.result()


def _kc_worker(name, pts, maxn, maxk):
    """Worker thread: model-check ds/GreedyKCenters.tla on one configuration and, in the same run,
    print its terminal states (the admissible answers).  -> (TlcResult, cases path, #answers)"""
    d = vlib.ensure_dir(os.path.join(WORK, "cfg-c10"))
    cfg = os.path.join(d, "kc-%s.cfg" % name)
    with open(cfg, "w") as f:
        f.write("\n".join(["SPECIFICATION Spec", "CONSTANTS", "  PtSet <- %s" % pts, "  MaxN = %d" % maxn,
                           "  MaxK = %d" % maxk, "  CheckOpt = TRUE", "INVARIANTS " + KC_INVARIANTS,
                           "PROPERTY RadiusShrinks", "ACTION_CONSTRAINT Dump"]) + "\n")
    rows = {}

    def sink(o):
        rows[json.dumps(o, sort_keys=True)] = o
    res = run_tlc("ds/GreedyKCenters", cfg=cfg, workers=1, timeout=3000, json_sink=sink, heap="2g")
    if res.error:
        raise FrameworkError(res.error)
    if res.violated:
        raise FrameworkError("the GreedyKCenters specification is inconsistent: %s violated in %s\n%s"
                             % (res.violated, name, res.out[-2000:]))
    path = os.path.join(WORK, "c10-kcenters-%s.ndjson" % name)
    vlib.write_ndjson(path, list(rows.values()))
    res.out = ""
    return res, path, len(rows)


def _audit_worker(binary, idx, structure, params, nexec, nops):
    """Worker thread: dump the internals of one GNAT under random histories and let TLC evaluate
    ds/GnatAudit.tla on every record."""
    tpath = os.path.join(WORK, "c10-audit-%s-%s.ndjson" % (structure, params.replace("-", "_")))
    rc, out, err = run_cmd([binary, "audit", tpath, structure, params, str(nexec), str(nops)], timeout=1800,
                           env={"VERIF_SEED": str(vlib.seed() * 173 + idx)})
    info = {"structure": structure, "params": params, "trace": tpath, "rec": None, "crashed": False,
            "stderr": (err or out)[-1500:]}
    if "AUDIT-UNAVAILABLE" in out:
        info["unavailable"] = True
        return info
    rec = _parse_lines(out, "AUDITED")
    info["rec"] = rec[0] if rec else None
    if rc != 0 or not rec:
        if rc in (-999, -9):
            raise FrameworkError("nn audit timed out / was killed on %s:%s" % (structure, params))
        info["crashed"] = True
        return info
    acc, prefix, res = validate_trace("ds/GnatAudit", tpath, timeout=3000, heap="2g")
    info.update(accepted=acc, prefix=prefix, violated=res.violated)
    return info


def _plan(tier):
    """The work of a tier.  ex: (graph, depth, alphabet, reinsert, combinations); deep: (graph, depth,
    shards) on DEEP_COMBOS; rnd: (graph, walks, length) on every combination (ASan build)."""
    dflt = [c for c in COMBOS if c[1] == "default"]
    calm = [c for c in COMBOS if c not in BUSY_COMBOS]
    if tier == "quick":
        return dict(
            ex=[("line4", 6, "noabsent", 0, NOT_DEFAULT), ("line4", 5, "noabsent", 0, dflt),
                ("line4", 5, "noabsent", 1, COMBOS), ("line4", 4, "full", 0, COMBOS),
                ("dup2", 6, "noabsent", 0, BUSY_COMBOS), ("dup2", 5, "noabsent", 0, calm),
                ("cluster6", 4, "noabsent", 0, BUSY_COMBOS), ("cluster6", 3, "noabsent", 0, calm),
                ("lattice9", 4, "noabsent", 0, BUSY_COMBOS), ("lattice9", 3, "noabsent", 0, calm)],
            deep=[],
            rnd=[("line4", 50, 60), ("dup2", 30, 60), ("cluster6", 40, 80), ("lattice9", 30, 60)],
            rec=(4, 700), rec_group=4,
            mc=[("line4", True), ("dup2", True)],
            kc=[("line5", "LinePts", 5, 6)],
            audit=([("gnat", "2-2-4-2-2-on"), ("gnat-nts", "3-2-5-1-500-off"), ("gnat", "6-4-8-2-4-on"),
                    ("gnat-nts", "default")], 2, 250))
    return dict(
        ex=[("line4", 7, "noabsent", 0, COMBOS), ("line4", 6, "noabsent", 1, COMBOS), ("line4", 5, "full", 0, COMBOS),
            ("dup2", 7, "noabsent", 0, COMBOS), ("dup2", 5, "full", 1, COMBOS), ("cluster6", 5, "noabsent", 0, COMBOS),
            ("lattice9", 5, "noabsent", 0, COMBOS)],
        # where the tree is busiest (DEEP_COMBOS): depth 8 over the 4-point graph (25.9 million
        # histories per combination, in 16 shards) and depth 6 over the cluster and lattice graphs
        deep=[("line4", 8, 16), ("cluster6", 6, 6), ("lattice9", 6, 6)],
        rnd=[("line4", 600, 80), ("dup2", 400, 80), ("cluster6", 600, 120), ("lattice9", 400, 100)],
        rec=(24, 1000), rec_group=2,
        mc=[("line4", True), ("dup2", True), ("cluster6", False), ("lattice9", True)],
        kc=[("line6", "LinePts", 6, 7), ("lattice5", "LatticePts", 5, 5)],
        audit=(GNAT_COMBOS, 8, 600))


def _path_count(gpath, depth, alphabet):
    """Number of histories of length <= depth in a dumped graph (to start the long jobs first)."""
    out = {}
    for e in vlib.read_ndjson(gpath):
        if alphabet == "full" or e["a"] != "RemoveAbsent":
            out.setdefault(e["s"], []).append(e["d"])
    cnt, total = {0: 1}, 0
    for _ in range(depth):
        nxt = {}
        for st, c in cnt.items():
            for d in out.get(st, ()):
                nxt[d] = nxt.get(d, 0) + c
        cnt = nxt
        total += sum(cnt.values())
    return total


def run(tier):
    ck = Check(PID, tier, "model_checking")
    ck.assumptions += ["the distance function is a metric (L1 on integer points; |a-b| on a line)",
                       "elements compare by identity (uid); an identity is live at most once at a time",
                       "expected answers depend on the bag only; the tree shape depends on the history, hence "
                       "every history up to the depth bound is executed",
                       "the first pivot of every split is drawn from ompl::RNG (seeded from VERIF_SEED)",
                       "kcenters: data non-empty, k >= 1 (as the GNATs call it)"]
    plan = _plan(tier)
    nexec, nops = plan["rec"]
    t0 = time.time()
    objs = _util_objects()
    builders = ThreadPoolExecutor(2)            # compile while TLC works on the models
    fast_f = builders.submit(_build_one, None, objs)
    asan_f = builders.submit(_build_one, "asan", objs)

    # 1. consistency of the contract, 2. its state graphs with the answer tables, 4a. the GreedyKCenters model
    tlc_pool = ThreadPoolExecutor(max(1, min(4, vlib.NCPU)))
    dump_f = {c: tlc_pool.submit(_dump_worker, c) for c in CONFIGS}
    kc_f = {k[0]: tlc_pool.submit(_kc_worker, *k) for k in plan["kc"]}
    mc_f = {c: tlc_pool.submit(_mc_worker, c, subsets) for c, subsets in plan["mc"]}
    graphs = {}
    for c, f in dump_f.items():
        res, gpath, info = f.result()
        ck.tlc(res, "dump-" + c)
        ck.set("graph_" + c, info)
        graphs[c] = gpath
    log("[C10] graphs dumped at %.1fs" % (time.time() - t0))

    # 3. every history up to the depth bound (plain build) + random walks (ASan build)
    agg = Agg()
    pool = ThreadPoolExecutor(vlib.NCPU)
    fast, probe_fast = fast_f.result()
    log("[C10] plain build ready at %.1fs" % (time.time() - t0))
    jobs = []
    for config, depth, shards in plan["deep"]:
        n = _path_count(graphs[config], depth, "noabsent") // shards
        for s, p in DEEP_COMBOS:
            for i in range(shards):
                jobs.append((n, (fast, config, graphs[config], depth, s, p, 0, 0, "noabsent", 0, vlib.seed(), "%d/%d" % (i, shards))))
    for config, depth, alphabet, reuse, combos in plan["ex"]:
        n = _path_count(graphs[config], depth, alphabet)
        for s, p in combos:
            jobs.append((n if s.startswith("gnat") else n // 2,
                         (fast, config, graphs[config], depth, s, p, 0, 0, alphabet, reuse, vlib.seed())))
    jobs.sort(key=lambda j: -j[0])
    futs = [pool.submit(_replay_job, agg, *j[1]) for j in jobs]

    # 5. M4 audit of dumped internals (plain build; the probe is needed)
    audit_combos, a_exec, a_ops = plan["audit"]
    aux_pool = ThreadPoolExecutor(max(1, min(vlib.NCPU, 6)))
    audit_f = [aux_pool.submit(_audit_worker, fast, i, s, p, a_exec, a_ops) for i, (s, p) in enumerate(audit_combos)] \
        if probe_fast else []

    asan, probe_asan = asan_f.result()
    builders.shutdown()
    have_probe = probe_fast and probe_asan
    ck.set("probe_available", have_probe)
    log("[C10] ASan build ready at %.1fs" % (time.time() - t0))
    rec_pool = ThreadPoolExecutor(max(1, min(3, vlib.NCPU)))   # ahead of the queued exhaustive walks: TLC comes after
    rec_f = [rec_pool.submit(_record_one, asan, i, s, p, nexec, nops) for i, (s, p) in enumerate(COMBOS)]
    for config, walks, wl in plan["rnd"]:
        for s, p in COMBOS:
            futs.append(pool.submit(_replay_job, agg, asan, config, graphs[config], 0, s, p, walks, wl, "full", 0, vlib.seed()))

    # 4b. GreedyKCenters replay
    kc_stats = {}
    kc_fail = []
    for name, f in kc_f.items():
        res, cases, nans = f.result()
        ck.tlc(res, "kcenters-" + name)
        rc, out, err = run_cmd([fast, "kcenters", cases], timeout=1800, env={"VERIF_SEED": str(vlib.seed())})
        summ = _parse_lines(out, "KCSUMMARY")
        if not summ:
            if rc in (70, 77, 78) or "CRASH" in out:
                rp = ck.replay_file("kcenters-crash-%s.txt" % name, (out + err)[-3000:])
                ck.violation("kcenters:crash", "GreedyKCenters crashed while replaying the specification's cases (%s): %s"
                             % (name, (err or out)[-500:]), rp)
                continue
            raise FrameworkError("nn kcenters produced no summary (rc=%s): %s" % (rc, (out + err)[-2000:]))
        kc_stats[name] = dict(summ[0], model_answers=nans)
        for fl in _parse_lines(out, "KCFAIL"):
            kc_fail.append((name, fl, summ[0]["failures"]))
    for c, f in mc_f.items():
        ck.tlc(f.result(), "mc-" + c)
    tlc_pool.shutdown()
    log("[C10] models checked, k-centres replayed at %.1fs" % (time.time() - t0))

    # 3b. recorded random histories validated by TLC against the contract
    results = [f.result() for f in rec_f]
    for info in results:
        if info["rec"]:
            with agg.lock:
                agg.add_probe(info["structure"], "record:" + info["params"], info["rec"]["probe"])
    _validate_traces(results, plan["rec_group"])
    log("[C10] traces validated at %.1fs" % (time.time() - t0))
    audits = [f.result() for f in audit_f]
    aux_pool.shutdown()
    log("[C10] audit done at %.1fs" % (time.time() - t0))
    for f in futs:
        f.result()
    pool.shutdown()
    log("[C10] replay done at %.1fs: %d scenarios (%d exhaustive paths), %d steps, %d queries"
        % (time.time() - t0, agg.scenarios, agg.exhaustive, agg.steps, agg.queries))

    # ---- evidence
    ck.add("traces_validated_against_impl", agg.scenarios)
    ck.set("exhaustive_paths", agg.exhaustive)
    ck.set("replayed_steps", agg.steps)
    ck.set("queries_compared", agg.queries)
    ck.set("structures_x_parameter_sets", len(COMBOS))
    ck.set("exhaustive_plan", [{"graph": c, "depth": d, "alphabet": a, "reinsert_removed": bool(r), "combinations": len(cs)}
                               for c, d, a, r, cs in plan["ex"]]
           + [{"graph": c, "depth": d, "combinations": ["%s:%s" % sp for sp in DEEP_COMBOS]} for c, d, _ in plan["deep"]])
    ck.set("internal_transitions", agg.probe)
    ck.set("internal_transitions_by_params", agg.probe_by_params)
    ck.set("kcenters", kc_stats)
    ck.set("exhaustive", True)

    # ---- verdicts: replay
    seen = set()
    for label, config, depth, walks, alphabet, reuse, tail in agg.crashes:
        if label in seen:
            continue
        seen.add(label)
        rp = ck.replay_file("crash-%s.json" % label.replace(":", "_"),
                            json.dumps({"kind": "crash", "config": config, "depth": depth, "walks": walks,
                                        "alphabet": alphabet, "reuse": reuse, "combo": label, "output": tail}, indent=1))
        ck.violation("crash:" + label, "nn harness crashed / sanitizer abort while replaying specification "
                     "histories on %s (%s): %s" % (label, config, tail[-600:]), rp)
    for key in sorted(agg.fails):
        f = agg.fails[key]
        first = f["first"]
        rp = ck.replay_file("scenario-%s.json" % key.replace(":", "_"), json.dumps(first, indent=1))
        ops = " ; ".join("%s %s" % (s["a"], json.dumps(s["args"], separators=(",", ":"))) for s in first["scenario"])
        ck.violation(key, "%d specification histories fail on %s with parameters %s; shortest: [%s] -> %s"
                     % (f["count"], first["structure"], first["params"], ops, first["why"]), rp)
    ck.sample({"kind": "replayed contract graphs", "graphs": {c: ck.cov.get("graph_" + c) for c in CONFIGS},
               "exhaustive_paths": agg.exhaustive, "failing_keys": sorted(agg.fails)})
    for key in sorted(agg.fails)[:2]:
        ck.sample({"kind": "shortest failing history", "key": key, "count": agg.fails[key]["count"],
                   "history": agg.fails[key]["first"]["scenario"], "why": agg.fails[key]["first"]["why"]})

    # ---- verdicts: GreedyKCenters
    for name, fl, nfail in kc_fail:
        rp = ck.replay_file("kcenters-%s.json" % name, json.dumps(dict(fl, model=name), indent=1))
        ck.violation("kcenters:" + fl["kind"], "%d calls of GreedyKCenters::kcenters give an answer the specification does "
                     "not admit; first: data %s (handed over in order %s), k = %d -> centres %s: %s"
                     % (nfail, fl["data"], fl["order"], fl["k"], fl["centers"], fl["why"]), rp)
    if kc_stats:
        ck.sample({"kind": "GreedyKCenters replay", "stats": kc_stats})

    # ---- verdicts: traces
    for info in sorted(results, key=lambda r: (r["structure"], r["params"])):
        label = "%s:%s" % (info["structure"], info["params"])
        ck.add("trace_events", info["events"])
        if info["accepted"]:
            ck.add("traces_validated_against_impl", nexec)
            ck.add("recorded_executions_accepted", nexec)
            if label == "gnat:default":
                ck.sample({"kind": "recorded trace excerpt", "combo": label, "events": vlib.read_ndjson(info["trace"])[8:13]})
            continue
        rp = ck.replay_file("trace-%s.ndjson" % label.replace(":", "_"))
        shutil.copyfile(info["trace"], rp)
        evs = vlib.read_ndjson(info["trace"])
        prefix = info["prefix"]
        bad = evs[prefix] if prefix is not None and prefix < len(evs) else {}
        line = (prefix or 0) + 1
        # which execution does the rejected line belong to, and was the stale-cache condition seen in it before?
        x = -1
        for ev in evs[:line]:
            if ev.get("e") == "Reset":
                x = ev.get("x", x + 1)
        tainted = info["rec"] and any(t["x"] == x and t["line"] <= line for t in info["rec"]["tainted"])
        if not have_probe and info["structure"].startswith("gnat") and info["params"] in CACHE_RELATION:
            tainted = True      # without the probe the parameter relation is all there is to go by
        if bad.get("e") == "Crash" or info["crashed"]:
            ck.violation("record-crash:" + label, "%s crashed / sanitizer abort under a random history at event %d: %s"
                         % (label, line, info["stderr"][-600:]), rp)
        elif tainted:
            ck.violation("gnat-removed-cache:" + label, "recorded execution %d of %s rejected by the contract at event %d "
                         "(%s) after the removal cache went stale" % (x, label, line, json.dumps(bad)[:300]), rp)
        else:
            ck.violation("trace:%s:%s" % (bad.get("e"), label), "recorded execution %d of %s rejected by the contract "
                         "at event %d of %d: %s" % (x, label, line, info["events"], json.dumps(bad)[:400]), rp)

    # ---- verdicts: audit of dumped internals
    audit_stats = {"records": 0, "with_children": 0, "with_cache": 0, "max_nodes": 0, "max_depth": 0, "combinations": 0}
    for info in sorted(audits, key=lambda r: (r["structure"], r["params"])):
        label = "%s:%s" % (info["structure"], info["params"])
        if info.get("unavailable"):
            continue
        rp = ck.replay_file("audit-%s.ndjson" % label.replace(":", "_"))
        if info["crashed"]:
            if os.path.exists(info["trace"]):
                shutil.copyfile(info["trace"], rp)
            ck.violation("audit-crash:" + label, "%s crashed while its internals were dumped under a random history: %s"
                         % (label, info["stderr"][-600:]), rp)
            continue
        r = info["rec"]
        audit_stats["combinations"] += 1
        for k2 in ("records", "with_children", "with_cache"):
            audit_stats[k2] += r[k2]
        for k2 in ("max_nodes", "max_depth"):
            audit_stats[k2] = max(audit_stats[k2], r[k2])
        # (a cache of size 1 is emptied by the rebuild every removal triggers; the default leaf holds 50)
        if r["records"] == 0 or (info["params"] != "2-2-2-1-1-off" and r["with_cache"] == 0) or \
                (info["params"] != "default" and r["with_children"] == 0):
            raise FrameworkError("vacuity gate: the audit of %s saw no tree with children / no cached removal: %s" % (label, r))
        if info["accepted"]:
            ck.add("traces_validated_against_impl", a_exec)
            ck.add("audited_executions_accepted", a_exec)
            continue
        shutil.copyfile(info["trace"], rp)
        inv = info["violated"] if info["violated"] in AUDIT_INVARIANTS else "rejected"
        # informational: how long before a wrong answer became visible did the audit fire (same execution)?
        evs = vlib.read_ndjson(info["trace"])
        at = info["prefix"] or 0
        end = next((i for i in range(at + 1, len(evs)) if evs[i].get("e") == "Reset"), len(evs))
        dense = next((i + 1 for i in range(at, end) if evs[i].get("vis")), None)
        sparse = next((i + 1 for i in range(at, end) if evs[i].get("visSparse")), None)
        ck.violation("audit:%s:%s" % (inv, label), "internal structure of %s dumped at record %d of a random history violates "
                     "%s (specs/ds/GnatAudit.tla); first wrong answer of a 16-point query battery run after every "
                     "mutation: %s; of a client issuing one random query per operation: %s (execution ends at record %d)"
                     % (label, at + 1, inv, "record %d" % dense if dense else "none", "record %d" % sparse if sparse else "none",
                        end), rp)
    ck.set("audit", audit_stats)
    if audit_stats["combinations"]:
        ck.sample({"kind": "M4 audit of dumped GNAT internals", "stats": audit_stats, "invariants": AUDIT_INVARIANTS})

    # ---- vacuity gates
    if agg.queries == 0 or agg.exhaustive == 0:
        raise FrameworkError("vacuity gate: nothing was replayed")
    for name, st in kc_stats.items():
        if st["failures"]:
            continue        # a failing case is abandoned, so its first centres were not all drawn
        if st["first_centres_seen"] != st["first_centres_needed"] or not st["early_stops"] or not st["cases_with_ties"] \
                or not st["calls_reusing_matrix"]:
            raise FrameworkError("vacuity gate: GreedyKCenters replay %s did not cover every first centre / early stop / "
                                 "tie / matrix re-use: %s" % (name, st))
    if have_probe and not ck.violations:
        need = ["splits", "rebuild_pivot", "rebuild_cache_full", "rebuild_split_with_cache", "rebuild_rebalance",
                "cached_removals", "degenerate_pivot_sets"]
        missing = [k for k in need if not agg.probe.get(k)]
        if missing:
            raise FrameworkError("vacuity gate: internal transitions never observed in any GNAT: %s" % missing)
        dflt = agg.probe_by_params.get("record:default", {})
        if not dflt.get("splits") or not dflt.get("rebuild_pivot"):
            raise FrameworkError("vacuity gate: the default-parameter GNAT never split / rebuilt in the recorded histories")
        for p in PARAMS[1:]:
            if not agg.probe_by_params.get(p, {}).get("splits"):
                raise FrameworkError("vacuity gate: no split under parameter set %s" % p)
        if not audit_stats["records"]:
            raise FrameworkError("vacuity gate: no audit record was evaluated")
    return ck.finish()


def replay(path):
    """Re-execute a replay artefact: a recorded trace is re-validated by TLC; a scenario file is
    re-run on the real structure, step by step, against a freshly dumped contract graph."""
    if path.endswith(".ndjson"):
        audit = os.path.basename(path).startswith("audit-")
        acc, prefix, res = validate_trace("ds/GnatAudit" if audit else "ds/NearestNeighborsTrace", os.path.abspath(path),
                                          heap="2g")
        if acc:
            print("accepted")
            return 0
        evs = vlib.read_ndjson(path)
        print("REJECTED at %s %d%s: %s" % ("record" if audit else "event", prefix + 1,
                                           " by invariant %s" % res.violated if audit else "",
                                           json.dumps(evs[prefix])[:3000] if prefix < len(evs) else "?"))
        return 1
    if path.endswith(".txt"):
        print(open(path).read())
        return 1
    sc = json.load(open(path))
    if "centers" in sc:
        print(json.dumps(sc, indent=1))
        print("GreedyKCenters::kcenters on this data vector (in the given order) with this k returned these centres; "
              "re-run ./check C10 to reproduce")
        return 1
    if sc.get("kind") == "crash":
        print(json.dumps(sc, indent=1))
        print("re-run ./check C10 to reproduce (crash while walking the graph %s)" % sc.get("config"))
        return 1
    ck = Check(PID, "replay", "model_checking")
    gpath = _model(ck, [], [sc["config"]])[sc["config"]]
    binary, _ = _build_one("asan", _util_objects())
    rc, out, err = run_cmd([binary, "scenario", gpath, os.path.abspath(path)], timeout=600)
    print(out[-4000:])
    if rc not in (0, 1):
        print(err[-2000:])
    return 0 if rc == 0 else 1


def _l1(a, b):
    return abs(a % 1024 - b % 1024) + abs(a // 1024 - b // 1024)


def selftest():
    """Binding demonstration for the trace spec: record a short history from a healthy
    structure, corrupt one field at a time, and require that TLC rejects exactly that line."""
    import copy
    binary, _ = _build_one(None, _util_objects())
    tpath = os.path.join(WORK, "c10-selftest.ndjson")
    rc, out, err = run_cmd([binary, "record", tpath, "gnat", "2-2-4-2-2-on", "1", "900"], env={"VERIF_SEED": str(vlib.seed())})
    if rc != 0:
        raise FrameworkError("selftest: record failed: " + (err or out)[-1000:])
    evs = vlib.read_ndjson(tpath)

    def find(pred):
        for i in range(150, len(evs)):
            if pred(evs[i]):
                return i
        raise FrameworkError("selftest: no suitable event in the recorded trace")
    cases = []
    i = find(lambda e: e["e"] == "Add")
    c = copy.deepcopy(evs); c[i]["n"] += 1
    cases.append(("size() after add off by one", i, c))
    i = find(lambda e: e["e"] == "NearestK" and len(e["res"]) >= 2 and
             _l1(e["res"][0]["pt"], e["q"]) != _l1(e["res"][-1]["pt"], e["q"]))
    c = copy.deepcopy(evs); c[i]["res"][0], c[i]["res"][-1] = c[i]["res"][-1], c[i]["res"][0]
    cases.append(("k-nearest answer not in non-decreasing order", i, c))
    i = find(lambda e: e["e"] == "NearestR" and len(e["res"]) >= 2)
    c = copy.deepcopy(evs); c[i]["res"][1] = c[i]["res"][0]
    cases.append(("the same element twice in a radius answer", i, c))
    i = find(lambda e: e["e"] == "List" and len(e["res"]) >= 3)
    c = copy.deepcopy(evs); del c[i]["res"][1]
    cases.append(("list() misses an element", i, c))
    i = find(lambda e: e["e"] == "Remove" and e["res"])
    c = copy.deepcopy(evs); c[i]["res"] = False
    cases.append(("remove() of a present element reported false", i, c))
    i = find(lambda e: e["e"] == "NearestK" and len(e["res"]) >= 1)
    c = copy.deepcopy(evs); c[i]["res"][-1]["uid"] = 999999
    cases.append(("k-nearest returns a non-member", i, c))
    bad = 0
    acc, prefix, res = validate_trace("ds/NearestNeighborsTrace", tpath, heap="2g")
    print("recorded trace (%d events): %s" % (len(evs), "accepted" if acc else "REJECTED at %d" % (prefix + 1)))
    bad += 0 if acc else 1
    cp = os.path.join(WORK, "c10-selftest-corrupt.ndjson")
    for name, i, c in cases:
        vlib.write_ndjson(cp, c)
        acc, prefix, res = validate_trace("ds/NearestNeighborsTrace", cp, heap="2g")
        ok = (not acc) and prefix == i
        print("%-50s line %4d: %s" % (name, i + 1, "rejected there" if ok else "NOT rejected at that line (accepted=%s, prefix=%s)" % (acc, prefix)))
        bad += 0 if ok else 1
    # the same for the M4 audit: corrupt one table / counter of a dumped structure
    apath = os.path.join(WORK, "c10-selftest-audit.ndjson")
    rc, out, err = run_cmd([binary, "audit", apath, "gnat", "2-2-4-2-2-on", "1", "200"], env={"VERIF_SEED": str(vlib.seed())})
    if rc != 0 or "AUDITED" not in out:
        raise FrameworkError("selftest: audit dump failed: " + (err or out)[-1000:])
    evs = vlib.read_ndjson(apath)
    acc, prefix, res = validate_trace("ds/GnatAudit", apath, heap="2g")
    print("dumped internals (%d records): %s" % (len(evs), "accepted" if acc else "REJECTED at %d" % (prefix + 1)))
    bad += 0 if acc else 1

    def afind(pred):
        for i in range(40, len(evs)):
            if evs[i]["e"] == "Audit" and pred(evs[i]):
                return i
        raise FrameworkError("selftest: no suitable audit record")

    def tight(r, field, delta):
        # pull one bound that is attained by some live element one unit inwards
        dead = {(x["node"], x["slot"]) for x in r["removed"]}
        nodes = r["nodes"]

        def sub(i):
            n = nodes[i - 1]
            pts = [n["pivot"]["pt"]] + [d["pt"] for k, d in enumerate(n["data"]) if (i, k + 1) not in dead]
            for c in n["children"]:
                pts += sub(c)
            return pts
        for n in nodes:
            cs = n["children"]
            for a in range(len(cs)):
                for b in range(len(cs)):
                    if a != b:
                        na = nodes[cs[a] - 1]
                        ds = [_l1(na["pivot"]["pt"], p) for p in sub(cs[b])]
                        if field == "maxRange" and max(ds) == na["maxRange"][b]:
                            na["maxRange"][b] -= 1
                            return True
                        if field == "minRange" and min(ds) == na["minRange"][b]:
                            na["minRange"][b] += 1
                            return True
        return False
    acases = []
    for field in ("maxRange", "minRange"):
        i = afind(lambda r: tight(copy.deepcopy(r), field, 1))
        c = copy.deepcopy(evs); tight(c[i], field, 1)
        acases.append(("%s entry one unit too tight" % field, i, c, "RangeTablesConservative"))
    i = afind(lambda r: len(r["removed"]) > 0)
    c = copy.deepcopy(evs); c[i]["removed"][0] = {"node": 0, "slot": 0}
    acases.append(("cached address outside the tree", i, c, "RemovedSubsetOfTree"))
    c = copy.deepcopy(evs); c[i]["removed"][0]["slot"] = 0
    acases.append(("a pivot in the removal cache", i, c, "NoRemovedPivot"))
    c = copy.deepcopy(evs); c[i]["size"] += 1
    acases.append(("size_ off by one", i, c, "SizeConsistent"))
    for name, i, c, inv in acases:
        vlib.write_ndjson(cp, c)
        acc, prefix, res = validate_trace("ds/GnatAudit", cp, heap="2g")
        ok = (not acc) and prefix == i and res.violated == inv
        print("%-50s line %4d: %s" % (name, i + 1, "rejected there by " + inv if ok else
                                      "NOT as expected (accepted=%s, prefix=%s, invariant=%s)" % (acc, prefix, res.violated)))
        bad += 0 if ok else 1
    print("selftest %s" % ("ok" if not bad else "FAILED"))
    return 0 if not bad else 1
