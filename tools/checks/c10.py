"""C10 - nearest-neighbour structures answer exactly like exhaustive search.

1. TLC checks the contract ds/NearestNeighbors.tla (bag of [pt, uid] elements; Add, AddMany,
   Remove, RemoveAbsent, Clear; answer tables for nearest / nearestK / nearestR / list / size) for
   internal consistency and exports its complete state graph with the tables (M3').
2. harness/nn.cpp walks EVERY path up to a depth through that graph on NearestNeighborsGNAT,
   ...GNATNoThreadSafety, ...Linear and ...SqrtApprox under the tree-parameter matrix of DESIGN
   C10, issuing the full query battery at the end of every path (plain -O2 build), plus long
   random walks with the battery after every step (ASan/UBSan build).
3. Random histories (~1000 operations per execution) recorded from every structure x parameter set
   are validated by TLC against the contract (ds/NearestNeighborsTrace.tla); TLC keeps the bag and
   computes brute force itself.

Violations are keyed "<observation>:<structure>:<params>".  Failures that follow the stale
removal-cache condition of the GNATs (DESIGN section 5, D5: the cache keeps addresses into a leaf
vector that reallocates when degree > maxNumPtsPerLeaf) are keyed
"gnat-removed-cache:<structure>:<params>".
"""
import json
import os
import shutil
import subprocess
import threading
import time
from concurrent.futures import ProcessPoolExecutor, ThreadPoolExecutor

import vlib
from vlib import Check, run_tlc, run_cmd, build_harness, Graph, validate_trace, FrameworkError, WORK, log

PID = "C10"

STRUCTS = ["gnat", "gnat-nts", "linear", "sqrt"]
PARAMS = ["default", "2-2-2-1-1-off", "2-2-4-2-2-on", "4-2-6-2-3-off", "3-2-5-1-500-off", "6-4-8-2-4-on",
          "2-2-2-3-2-off"]
COMBOS = [(s, p) for s in ("gnat", "gnat-nts") for p in PARAMS] + [("linear", "-"), ("sqrt", "-")]

# named configurations of the spec (operators in NearestNeighbors.tla): points, copies, size bound
CONFIGS = {
    "line4": ("Line4", 2, 8),          # 81 bags
    "dup2": ("Dup2", 4, 8),            # 25 bags, up to four coinciding elements
    "cluster6": ("Cluster6", 2, 12),   # 729 bags, tight clusters far apart
    "lattice9": ("Lattice9", 1, 9),    # 512 bags, L1 ties
}
ACTIONS = {"Add", "AddMany", "Remove", "RemoveAbsent", "Clear"}
INVARIANTS = ("TypeOK Canonical KSorted KLen KPrefix RPrefixOfK RMonotone RBounded NearestIsK1 ApproxWeaker "
              "SizeAgrees KSubBag RAnswerAgrees ListAgrees")
UTIL_SOURCES = ["RandomNumbers", "Console", "ProlateHyperspheroid", "GeometricEquations"]


def _cfg(name, config, dump, subsets):
    pts, copies, size = CONFIGS[config]
    d = vlib.ensure_dir(os.path.join(WORK, "cfg-c10"))
    p = os.path.join(d, name + ".cfg")
    body = ["SPECIFICATION Spec", "CONSTANTS", "  PtSeq <- %s" % pts, "  MaxCopies = %d" % copies,
            "  MaxSize = %d" % size, "  Bulks <- %sBulks" % pts, "  QSeq <- %sQ" % pts, "  RSeq <- Radii",
            "  CheckSubsets = %s" % ("TRUE" if subsets else "FALSE"), "VIEW View"]
    if dump:
        body.append("ACTION_CONSTRAINT Dump")
    else:
        body += ["INVARIANTS " + INVARIANTS, "PROPERTY StepContract"]
    with open(p, "w") as f:
        f.write("\n".join(body) + "\n")
    return p


# ------------------------------------------------------------------ building
def _util_objects():
    """GreedyKCenters draws pivots from ompl::RNG; compile the few util sources it needs instead of
    building all of libompl (each through ccache, in parallel)."""
    odir = vlib.ensure_dir(os.path.join(WORK, "c10-obj"))
    cfgdir = vlib._config_dir()
    procs = []
    for u in UTIL_SOURCES:
        src = os.path.join(vlib.REPO, "src", "ompl", "util", "src", u + ".cpp")
        obj = os.path.join(odir, u + ".o")
        cmd = ["ccache", "g++", "-std=c++17", "-O2", "-g", "-c", "-D" + vlib.GUARD, "-Wno-deprecated-declarations",
               "-I" + os.path.join(vlib.REPO, "src"), "-I" + cfgdir, "-I/usr/include/eigen3", src, "-o", obj]
        procs.append((obj, subprocess.Popen(cmd, env=vlib._ccache_env(), stdout=subprocess.PIPE,
                                            stderr=subprocess.STDOUT, text=True)))
    objs = []
    for obj, p in procs:
        out, _ = p.communicate()
        if p.returncode != 0:
            raise FrameworkError("cannot compile ompl util source for the nn harness:\n" + out[-3000:])
        objs.append(obj)
    return objs


def _build():
    """-> (plain -O2 binary, ASan binary, probe available)."""
    objs = _util_objects()

    def both(extra):
        with ThreadPoolExecutor(2) as ex:
            a = ex.submit(build_harness, "nn", False, None, tuple(extra), "plain", "-O2")
            b = ex.submit(build_harness, "nn", False, "asan", tuple(extra), "plain", "-O1")
            return a.result(), b.result()
    try:
        fast, asan = both(["-DNN_PROBE"] + objs)
        return fast, asan, True
    except FrameworkError as ex:
        # the probe reads protected members of the GNATs; if a refactoring renamed them the
        # contract check still runs, only the counting of internal transitions is lost
        log("[C10] probe build failed, building without it: %s" % str(ex)[-400:])
        fast, asan = both(objs)
        return fast, asan, False


# ------------------------------------------------------------------ model
def _dump_worker(config):
    """Runs in a worker process (run_tlc's scratch directory is keyed by pid): dump the state graph
    of one configuration, gate it, write it.  -> (TlcResult without output, path, info)"""
    edges = []
    res = run_tlc("ds/NearestNeighbors", cfg=_cfg("dump-" + config, config, True, False), workers=1, timeout=1800,
                  json_sink=edges.append)
    if res.error:
        raise FrameworkError(res.error)
    if res.violated:
        raise FrameworkError("dump run of %s reports %s" % (config, res.violated))
    g = Graph(edges)
    g.check_connected()
    acts = {}
    for e in g.edges:
        acts[e["a"]] = acts.get(e["a"], 0) + 1
    if ACTIONS - set(acts):
        raise FrameworkError("vacuity gate: actions never taken in the model %s: %s" % (config, sorted(ACTIONS - set(acts))))
    tables = {e["d"] for e in g.edges if isinstance(e["exp"], dict) and "n" in e["exp"]}
    if len(tables) != len(g.ids):
        raise FrameworkError("graph %s: %d states but %d answer tables" % (config, len(g.ids), len(tables)))
    gpath = g.write(os.path.join(WORK, "c10-%s.ndjson" % config))
    res.out = ""
    return res, gpath, {"states": len(g.ids), "edges": len(g.edges), "edges_per_action": acts}


def _dump_graphs(ck, configs):
    graphs = {}
    with ProcessPoolExecutor(4) as exr:
        futs = {c: exr.submit(_dump_worker, c) for c in configs}
        for c, f in futs.items():
            res, gpath, info = f.result()
            ck.tlc(res, "dump-" + c)
            ck.set("graph_" + c, info)
            graphs[c] = gpath
    return graphs


def _parse_lines(out, tag):
    rows = []
    for line in out.splitlines():
        if line.startswith(tag + " "):
            try:
                rows.append(json.loads(line[len(tag) + 1:]))
            except ValueError:
                pass
    return rows


class Agg:
    """Collects the outcome of all replay / record jobs."""

    def __init__(self):
        self.fails = {}        # key -> dict(count, first)
        self.probe = {}        # counter -> sum over GNAT combos
        self.probe_by_params = {}
        self.scenarios = 0
        self.exhaustive = 0
        self.steps = 0
        self.queries = 0
        self.crashes = []
        self.lock = threading.Lock()

    def add_fail(self, f, config):
        cur = self.fails.setdefault(f["key"], {"count": 0, "first": None})
        cur["count"] += f.get("count", 1)
        if cur["first"] is None or len(f["scenario"]) < len(cur["first"]["scenario"]):
            cur["first"] = dict(f, config=config)

    def add_probe(self, structure, params, pr):
        if structure not in ("gnat", "gnat-nts"):
            return
        mine = self.probe_by_params.setdefault(params, {})
        for k, v in pr.items():
            if k.startswith("max_"):
                self.probe[k] = max(self.probe.get(k, 0), v)
                mine[k] = max(mine.get(k, 0), v)
            elif k != "queries":
                self.probe[k] = self.probe.get(k, 0) + v
                mine[k] = mine.get(k, 0) + v


def _replay_job(agg, binary, config, gpath, depth, structure, params, walks, walklen, alphabet, reuse, seed_env):
    t0 = time.time()
    rc, out, err = run_cmd([binary, "replay", gpath, str(depth), structure, params, str(walks), str(walklen), alphabet,
                            str(reuse)], timeout=7200, env={"VERIF_SEED": str(seed_env)})
    summ = _parse_lines(out, "SUMMARY")
    label = "%s:%s" % (structure, params)
    with agg.lock:
        if not summ:
            if "CRASH" in out or rc in (70, 77, 78) or rc < 0:
                agg.crashes.append((label, config, depth, walks, alphabet, reuse, (err or out)[-1500:]))
                return
            raise FrameworkError("nn replay produced no summary (rc=%s, %s on %s): %s"
                                 % (rc, label, config, (out + err)[-2000:]))
        for c in _parse_lines(out, "COMBO"):
            agg.scenarios += c["scenarios"]
            agg.exhaustive += c["exhaustive_paths"]
            agg.steps += c["steps"]
            agg.queries += c["probe"]["queries"]
            agg.add_probe(c["structure"], c["params"], c["probe"])
        for f in _parse_lines(out, "FAILKEY"):
            agg.add_fail(f, config)
    return time.time() - t0


def _record_worker(binary, idx, structure, params, nexec, nops):
    """Runs in a worker process: record random histories from one structure x parameter set and have
    TLC validate them against the contract."""
    tpath = os.path.join(WORK, "c10-trace-%s-%s.ndjson" % (structure, params.replace("-", "_") if params != "-" else "x"))
    rc, out, err = run_cmd([binary, "record", tpath, structure, params, str(nexec), str(nops)], timeout=1800,
                           env={"VERIF_SEED": str(vlib.seed() * 131 + idx)})
    rec = _parse_lines(out, "RECORDED")
    info = {"structure": structure, "params": params, "trace": tpath, "crashed": rc != 0 or not rec,
            "stderr": (err or out)[-1500:], "rec": rec[0] if rec else None}
    acc, prefix, res = validate_trace("ds/NearestNeighborsTrace", tpath, timeout=3000, heap="2g")
    info.update(accepted=acc, prefix=prefix, events=sum(1 for _ in open(tpath)))
    return info


def _plan(tier):
    """(exhaustive jobs, random-walk jobs, record plan, mc configs, dump configs)"""
    if tier == "quick":
        ex = [("line4", 6, "noabsent", 0), ("line4", 5, "noabsent", 1), ("line4", 4, "full", 0),
              ("dup2", 6, "noabsent", 0), ("cluster6", 4, "noabsent", 0), ("lattice9", 4, "noabsent", 0)]
        rnd = [("line4", 120, 60), ("dup2", 80, 60), ("cluster6", 120, 80), ("lattice9", 80, 60)]
        rec = (4, 1000)
        mc = [("line4", True), ("dup2", True), ("cluster6", False)]
        deep = []
    else:
        ex = [("line4", 7, "noabsent", 0), ("line4", 6, "noabsent", 1), ("line4", 5, "full", 0),
              ("dup2", 8, "noabsent", 0), ("dup2", 6, "full", 1), ("cluster6", 6, "noabsent", 0),
              ("lattice9", 6, "noabsent", 0)]
        rnd = [("line4", 1500, 80), ("dup2", 1000, 80), ("cluster6", 1500, 120), ("lattice9", 1000, 100)]
        rec = (24, 1000)
        mc = [("line4", True), ("dup2", True), ("cluster6", False), ("lattice9", True)]
        # depth 8 over the 4-point graph (25.9 million histories each) where the tree is busiest
        deep = [(s, p) for s in ("gnat", "gnat-nts") for p in ("2-2-4-2-2-on", "3-2-5-1-500-off")]
    return ex, rnd, rec, mc, deep


def run(tier):
    ck = Check(PID, tier, "model_checking")
    ck.assumptions += ["the distance function is a metric (L1 on integer points; |a-b| on a line)",
                       "elements compare by identity (uid); an identity is live at most once at a time",
                       "expected answers depend on the bag only; the tree shape depends on the history, hence "
                       "every history up to the depth bound is executed",
                       "the first pivot of every split is drawn from ompl::RNG (seeded from VERIF_SEED)"]
    ex_plan, rnd_plan, (nexec, nops), mcs, deep = _plan(tier)
    t0 = time.time()
    fast, asan, have_probe = _build()
    ck.set("probe_available", have_probe)
    log("[C10] builds done in %.1fs" % (time.time() - t0))

    # 1. the contract's internal consistency
    for config, subsets in mcs:
        res = run_tlc("ds/NearestNeighbors", cfg=_cfg("mc-" + config, config, False, subsets), workers=vlib.NCPU,
                      timeout=3000)
        ck.tlc(res, "mc-" + config)
        if res.violated:
            raise FrameworkError("the contract specification is inconsistent: %s violated in %s\n%s"
                                 % (res.violated, config, res.out[-2000:]))
    # 2. state graphs with answer tables
    graphs = _dump_graphs(ck, list(CONFIGS))
    log("[C10] model checked and graphs dumped at %.1fs" % (time.time() - t0))

    # 3. every history up to the depth bound + random walks, all structures x parameter sets
    agg = Agg()
    jobs = []
    for s, p in deep:
        jobs.append((fast, "line4", graphs["line4"], 8, s, p, 0, 0, "noabsent", 0, vlib.seed()))
    for config, depth, alphabet, reuse in ex_plan:
        for s, p in COMBOS:
            jobs.append((fast, config, graphs[config], depth, s, p, 0, 0, alphabet, reuse, vlib.seed()))
    for config, walks, wl in rnd_plan:
        for s, p in COMBOS:
            jobs.append((asan, config, graphs[config], 0, s, p, walks, wl, "full", 0, vlib.seed()))
    with ThreadPoolExecutor(vlib.NCPU) as exr:
        futs = [exr.submit(_replay_job, agg, *j) for j in jobs]
        for f in futs:
            f.result()
    log("[C10] replay done at %.1fs: %d scenarios (%d exhaustive paths), %d steps, %d queries"
        % (time.time() - t0, agg.scenarios, agg.exhaustive, agg.steps, agg.queries))

    # 4. recorded random histories validated by TLC
    results = []
    with ProcessPoolExecutor(min(vlib.NCPU, 8)) as exr:
        futs = [exr.submit(_record_worker, asan, i, s, p, nexec, nops) for i, (s, p) in enumerate(COMBOS)]
        for f in futs:
            info = f.result()
            results.append(info)
            if info["rec"]:
                agg.add_probe(info["structure"], "record:" + info["params"], info["rec"]["probe"])
    log("[C10] traces validated at %.1fs" % (time.time() - t0))

    # ---- evidence
    ck.add("traces_validated_against_impl", agg.scenarios)
    ck.set("exhaustive_paths", agg.exhaustive)
    ck.set("replayed_steps", agg.steps)
    ck.set("queries_compared", agg.queries)
    ck.set("structures_x_parameter_sets", len(COMBOS))
    ck.set("exhaustive_plan", [{"graph": c, "depth": d, "alphabet": a, "reinsert_removed": bool(r)} for c, d, a, r in ex_plan]
           + [{"graph": "line4", "depth": 8, "structure": s, "params": p} for s, p in deep])
    ck.set("internal_transitions", agg.probe)
    ck.set("internal_transitions_by_params", agg.probe_by_params)
    ck.set("exhaustive", True)

    # ---- verdicts: replay
    for label, config, depth, walks, alphabet, reuse, tail in agg.crashes:
        rp = ck.replay_file("crash-%s.json" % label.replace(":", "_"),
                            json.dumps({"kind": "crash", "config": config, "depth": depth, "walks": walks,
                                        "alphabet": alphabet, "reuse": reuse, "combo": label, "output": tail}, indent=1))
        ck.violation("crash:" + label, "nn harness crashed / sanitizer abort while replaying specification "
                     "histories on %s (%s): %s" % (label, config, tail[-600:]), rp)
    for key in sorted(agg.fails):
        f = agg.fails[key]
        first = f["first"]
        rp = ck.replay_file("scenario-%s.json" % key.replace(":", "_"), json.dumps(first, indent=1))
        ops = " ; ".join("%s %s" % (s["a"], json.dumps(s["args"], separators=(",", ":"))) for s in first["scenario"])
        ck.violation(key, "%d specification histories fail on %s with parameters %s; shortest: [%s] -> %s"
                     % (f["count"], first["structure"], first["params"], ops, first["why"]), rp)
    if not agg.fails and not agg.crashes:
        ck.sample({"kind": "replayed contract graphs", "graphs": {c: ck.cov.get("graph_" + c) for c in CONFIGS},
                   "exhaustive_paths": agg.exhaustive})

    # ---- verdicts: traces
    for info in sorted(results, key=lambda r: (r["structure"], r["params"])):
        label = "%s:%s" % (info["structure"], info["params"])
        ck.add("trace_events", info["events"])
        if info["accepted"]:
            ck.add("traces_validated_against_impl", nexec)
            ck.add("recorded_executions_accepted", nexec)
            if label == "gnat:default":
                ck.sample({"kind": "recorded trace excerpt", "combo": label, "events": vlib.read_ndjson(info["trace"])[8:13]})
            continue
        rp = ck.replay_file("trace-%s.ndjson" % label.replace(":", "_"))
        shutil.copyfile(info["trace"], rp)
        evs = vlib.read_ndjson(info["trace"])
        prefix = info["prefix"]
        bad = evs[prefix] if prefix is not None and prefix < len(evs) else {}
        line = (prefix or 0) + 1
        # which execution does the rejected line belong to, and was the stale-cache condition seen in it before?
        x = -1
        for ev in evs[:line]:
            if ev.get("e") == "Reset":
                x = ev.get("x", x + 1)
        tainted = info["rec"] and any(t["x"] == x and t["line"] <= line for t in info["rec"]["tainted"])
        if bad.get("e") == "Crash" or info["crashed"]:
            ck.violation("record-crash:" + label, "%s crashed / sanitizer abort under a random history at event %d: %s"
                         % (label, line, info["stderr"][-600:]), rp)
        elif tainted:
            ck.violation("gnat-removed-cache:" + label, "recorded execution %d of %s rejected by the contract at event %d "
                         "(%s) after the removal cache went stale" % (x, label, line, json.dumps(bad)[:300]), rp)
        else:
            ck.violation("trace:%s:%s" % (bad.get("e"), label), "recorded execution %d of %s rejected by the contract "
                         "at event %d of %d: %s" % (x, label, line, info["events"], json.dumps(bad)[:400]), rp)

    # ---- vacuity gates
    if agg.queries == 0 or agg.exhaustive == 0:
        raise FrameworkError("vacuity gate: nothing was replayed")
    if have_probe:
        need = ["splits", "rebuild_pivot", "rebuild_cache_full", "rebuild_split_with_cache", "rebuild_rebalance",
                "cached_removals", "degenerate_pivot_sets"]
        missing = [k for k in need if not agg.probe.get(k)]
        if missing:
            raise FrameworkError("vacuity gate: internal transitions never observed in any GNAT: %s" % missing)
        dflt = agg.probe_by_params.get("record:default", {})
        if not dflt.get("splits") or not dflt.get("rebuild_pivot"):
            raise FrameworkError("vacuity gate: the default-parameter GNAT never split / rebuilt in the recorded histories")
        for p in PARAMS[1:]:
            if not agg.probe_by_params.get(p, {}).get("splits"):
                raise FrameworkError("vacuity gate: no split under parameter set %s" % p)
    return ck.finish()


def replay(path):
    """Re-execute a replay artefact: a recorded trace is re-validated by TLC; a scenario file is
    re-run on the real structure, step by step, against a freshly dumped contract graph."""
    if path.endswith(".ndjson"):
        acc, prefix, res = validate_trace("ds/NearestNeighborsTrace", os.path.abspath(path), heap="2g")
        if acc:
            print("accepted")
            return 0
        evs = vlib.read_ndjson(path)
        print("REJECTED at event %d: %s" % (prefix + 1, json.dumps(evs[prefix]) if prefix < len(evs) else "?"))
        return 1
    sc = json.load(open(path))
    if sc.get("kind") == "crash":
        print(json.dumps(sc, indent=1))
        print("re-run ./check C10 to reproduce (crash while walking the graph %s)" % sc.get("config"))
        return 1
    ck = Check(PID, "replay", "model_checking")
    gpath = _dump_graphs(ck, [sc["config"]])[sc["config"]]
    objs = _util_objects()
    try:
        binary = build_harness("nn", needs_lib=False, san="asan", extra=tuple(["-DNN_PROBE"] + objs))
    except FrameworkError:
        binary = build_harness("nn", needs_lib=False, san="asan", extra=tuple(objs))
    rc, out, err = run_cmd([binary, "scenario", gpath, os.path.abspath(path)], timeout=600)
    print(out[-4000:])
    if rc not in (0, 1):
        print(err[-2000:])
    return 0 if rc == 0 else 1
