"""C02 - control planners' solutions replay through the propagator.

1. TLC model-checks control/Propagate.tla: statement-level transcriptions of both overloads of
   control::SpaceInformation::propagateWhileValid over an integer integrator, every step count in
   -8..8 x every validity pattern x alloc / capacity, against the documented contract (count =
   leading valid steps, result = state after that many steps, overloads agree, nothing leaks);
   thorough tier: -9..9.
2. Every case TLC enumerated is printed with the expectation the CONTRACT computes and replayed on
   the real SpaceInformation (integer propagator on R^1, counting state space, 3 embeddings).
3. Control planners (RRT with / without intermediate states, SST, EST, KPIECE1, PDST, SyclopRRT,
   SyclopEST) are run on three systems x 4x4 cell maps x duration ranges x step sizes x budgets x
   seeds under an evaluation-count termination condition; each run yields one SolveReport whose
   path facts come from an oracle independent of the library (own propagator copy, own validity
   predicate).  TLC validates the reports against control/ControlPathContract.tla.
"""
import concurrent.futures
import json
import os
import random
import shutil
import vlib
from vlib import Check, run_tlc, run_cmd, build_harness, validate_trace, FrameworkError, WORK, log

PID = "C02"
TRACE_SPEC = "control/ControlPathTrace"

# ------------------------------------------------------------------ part 1/2: propagation


def _cfg(name, n, caps, alias, invariants=True):
    d = vlib.ensure_dir(os.path.join(WORK, "cfg-c02"))
    p = os.path.join(d, name + ".cfg")
    body = ["SPECIFICATION Spec", "CONSTANTS", "  N = %d" % n,
            "  Caps = {%s}" % ", ".join(map(str, caps)), "  Alias = %s" % ("TRUE" if alias else "FALSE")]
    if invariants:
        body.append("INVARIANTS CountCorrect ResultIsLastValid AgreeA_B NoAllocLeak ZeroCopies "
                    "MirrorAtInit NeverReturnsInvalid")
    with open(p, "w") as f:
        f.write("\n".join(body) + "\n")
    return p


def _parse(out, tag):
    rows = []
    for line in out.splitlines():
        if line.startswith(tag + " "):
            rows.append(json.loads(line[len(tag) + 1:]))
    return rows


def _propagation_part(ck, binary, n):
    caps = list(range(0, n + 2))
    cases = []
    res = run_tlc("control/Propagate", cfg=_cfg("mc-%d" % n, n, caps, False), workers=vlib.NCPU,
                  timeout=6 * 3600, json_sink=cases.append)
    ck.tlc(res, "propagate-mc-N%d" % n)
    if res.violated:
        # the transcription breaks the contract: a design-level finding; the verdict on the code
        # comes from the replay below, which covers the same cases
        log("[C02] note: TLC reports %s violated in the algorithm model" % res.violated)
        ck.set("model_violation", res.violated)
    expect = (2 * n + 1) * (2 ** n) * (1 + len(caps))
    if not res.violated and len(cases) != expect:
        raise FrameworkError("Propagate.tla emitted %d cases, expected %d" % (len(cases), expect))
    ck.set("propagate_cases", len(cases))
    # aliasing (result == state) is explored for the record only: no caller in the library does it
    ares = run_tlc("control/Propagate", cfg=_cfg("alias", min(n, 4), [0, 2], True), workers=1, timeout=6 * 3600,
                   collect_json=False)
    if ares.error:
        raise FrameworkError(ares.error)
    ck.set("alias_model_result", ares.violated or "no violation")
    cpath = os.path.join(WORK, "c02-cases-N%d-%d.ndjson" % (n, os.getpid()))
    vlib.write_ndjson(cpath, cases)
    rc, out, err = run_cmd([binary, "replay-propagate", cpath], timeout=6 * 3600)
    summ = _parse(out, "SUMMARY")
    if not summ:
        if "CRASH" in out or rc in (70, 77, 78) or rc < 0:
            rp = ck.replay_file("propagate-cases.ndjson")
            shutil.copyfile(cpath, rp)
            ck.violation("propagate:crash", "harness crashed while replaying specification cases on "
                         "propagateWhileValid: " + (err or out)[-600:], rp)
            return
        raise FrameworkError("replay-propagate produced no summary (rc=%s): %s" % (rc, (out + err)[-2000:]))
    summ = summ[0]
    ck.add("traces_validated_against_impl", summ["scenarios"])
    ck.add("replayed_propagation_calls", summ["checks"])
    ck.set("propagate_case_shapes", summ["coverage"])
    ck.set("alias_deviations_on_real_code", summ["aliasDeviations"])
    need = {"zero", "firstInvalid", "stopsMidway", "allValid", "backward", "capacityLimited", "alloc"}
    missing = [k for k in need if not summ["coverage"].get(k)]
    if missing:
        raise FrameworkError("vacuity gate: case shapes never replayed: %s" % missing)
    if summ["leftoverStates"]:
        raise FrameworkError("replay harness itself leaked %d states" % summ["leftoverStates"])
    firsts = {f["kind"]: f for f in _parse(out, "FAILKIND")}
    for kind, cnt in sorted(summ["kinds"].items()):
        f = firsts.get(kind, {})
        rp = ck.replay_file("propagate-%s.ndjson" % kind.replace(":", "-"), json.dumps(f.get("case", {})) + "\n")
        ck.violation("propagate:" + kind, "%d of %d replayed cases break the propagateWhileValid contract (%s); "
                     "first: steps=%s valid=%s alloc=%s cap=%s embedding=%s: %s"
                     % (cnt, summ["scenarios"], kind, f.get("case", {}).get("steps"), f.get("case", {}).get("valid"),
                        f.get("case", {}).get("alloc"), f.get("case", {}).get("cap"), f.get("embedding"), f.get("why")), rp)
    os.unlink(cpath)
    if not summ["kinds"]:
        ck.sample({"kind": "replayed propagation cases", "cases": summ["cases"], "embeddings": 3,
                   "shapes": summ["coverage"]})


# ------------------------------------------------------------------ part 3: planner runs

PLANNERS = ["RRT", "RRTi", "SST", "EST", "KPIECE1", "PDST", "SyclopRRT", "SyclopEST"]
DIRECTED = {"RRT", "RRTi", "EST", "PDST", "SyclopRRT"}     # planners that use the directed control sampler
SYSTEMS = {"point": (250000, 100000), "car": (200000, 125000), "dint": (250000, 100000)}   # step sizes (micro)
DURATIONS = [(1, 1), (1, 10), (3, 7)]


def _mask(cells):
    m = 0
    for c in cells:
        m |= 1 << c
    return m


# name, obstacle cells (cell = y*4+x), start cell, goal cell, threshold class
LAYOUTS = [
    ("open", [], 0, 15, "normal"),
    ("wall", [1, 5, 9], 0, 3, "normal"),
    ("block", [5, 6, 9, 10], 0, 15, "normal"),
    ("diag", [1, 4], 0, 15, "normal"),               # only a corner passage out of the start cell
    ("slalom", [1, 5, 9, 7, 11, 15], 0, 3, "normal"),
    ("unreach", [10, 11, 14], 0, 15, "normal"),      # goal cell enclosed: never exact
    ("startblocked", [0], 0, 15, "normal"),          # INVALID_START
    ("goalblocked", [15], 0, 15, "normal"),          # goal region inside an obstacle
    ("tiny", [6], 0, 15, "tiny"),                    # threshold 1e-4: approximate solutions
    ("huge", [5, 6, 9, 10], 0, 15, "huge"),          # threshold covers the map: first motion solves
]


def _matrix(tier, base_seed):
    """Deterministic list of run lines (see harness/control.cpp for the format)."""
    rng = random.Random(base_seed * 7919 + 17)
    layouts = list(LAYOUTS)
    nrand = 6 if tier == "quick" else 12
    for i in range(nrand):
        k = rng.randint(2, 6)
        cells = rng.sample(range(16), k)
        free = [c for c in range(16) if c not in cells]
        s = rng.choice(free)
        g = rng.choice(range(16)) if rng.random() < 0.15 else rng.choice(free)
        layouts.append(("rand%d" % i, cells, s, g, rng.choice(["normal", "normal", "normal", "tiny"])))
    budgets = [0, 4, 120, 1500, 6000] + ([] if tier == "quick" else [20000])
    nseeds = 1 if tier == "quick" else 2
    rows = []
    for planner in PLANNERS:
        for system, steps in SYSTEMS.items():
            for (name, cells, s, g, thr) in layouts:
                for (mn, mx) in DURATIONS:
                    for step in steps:
                        for dcs in ((1, 3) if planner in DIRECTED else (1,)):
                            for budget in budgets:
                                for k in range(nseeds if budget < 20000 else 1):
                                    rows.append((planner, system, name, _mask(cells), s, g, thr, mn, mx, step, dcs, budget, k))
    if tier == "quick":
        # a seeded sample, stratified so that every planner x system x layout cell is present
        by = {}
        for r in rows:
            by.setdefault((r[0], r[1], r[2]), []).append(r)
        rows = []
        for key in sorted(by):
            rows += rng.sample(by[key], 10)
    lines = []
    for i, r in enumerate(rows):
        seed = (base_seed * 1000003 + i * 31 + r[12] * 7) % 1000000000 + 1
        lines.append("%d %s %s %s %d %d %d %s %d %d %d %d %d %d" % ((i + 1,) + r[:12] + (seed,)))
    return lines


def _record_shard(args):
    binary, spec_path, out_path = args
    rc, out, err = run_cmd([binary, "record", out_path, spec_path], timeout=6 * 3600)
    return rc, out[-2000:], err[-2000:]


def _validate(path):
    sink = []
    acc, prefix, res = validate_trace(TRACE_SPEC, path, timeout=6 * 3600, json_sink=sink.append)
    # the verdict lines TLC printed (PrintT(ToJson(..)) prints a quoted TLA+ string); also look in the raw
    # output so that the parse does not depend on which lines the TLC runner chose to collect
    for line in res.out.splitlines():
        if line.startswith('"{') and line.endswith('}"') and "verdict" in line:
            try:
                sink.append(json.loads(line[1:-1].replace('\\"', '"').replace("\\\\", "\\")))
            except ValueError:
                pass
    seen, verdicts = set(), []
    for v in sink + list(res.json):
        if v.get("verdict") == "rejected" and v["line"] not in seen:
            seen.add(v["line"])
            verdicts.append(v)
    return acc, prefix, res.violated, verdicts, res.wall


def _selftest_rows(good):
    """Corrupt one field of an accepted recorded report at a time; returns (rows, expected clause per row)."""
    rows, expect = [{"e": "Reset"}], []

    def mutate(clause, fn):
        r = json.loads(json.dumps(good))
        fn(r)
        r["run"] = 900000 + len(expect)
        rows.append(r)
        expect.append(clause)
    for fact in ("startIsAStart", "replayMatches", "allStepsValid", "controlsInBounds", "durationsWholeSteps"):
        mutate(fact, lambda r, fact=fact: r["paths"][0].__setitem__(fact, False))
    mutate("exactEndsInGoal", lambda r: r["paths"][0].__setitem__("lastInGoal", False))
    mutate("counts", lambda r: r["paths"][0].__setitem__("nControls", r["paths"][0]["nControls"] + 1))
    mutate("exactStatusHasExactPath", lambda r: (r["paths"][0].__setitem__("approx", True),
                                                 r["paths"][0].__setitem__("diff", r["paths"][0]["lastDist"])))
    mutate("approxStatusOnlyApproxPaths", lambda r: r.__setitem__("status", "APPROXIMATE_SOLUTION"))
    mutate("approxDifferenceAgrees", lambda r: (r["paths"][0].__setitem__("approx", True),
                                                r["paths"][0].__setitem__("diff", r["paths"][0]["lastDist"] + 5000),
                                                r.__setitem__("status", "APPROXIMATE_SOLUTION")))
    mutate("nonSolutionAddsNothing", lambda r: r.__setitem__("status", "TIMEOUT"))
    mutate("solutionStatusAddsPath", lambda r: (r.__setitem__("paths", []), r.__setitem__("nAdded", 0)))
    mutate("nAddedMatches", lambda r: r.__setitem__("nAdded", 2))
    mutate("invalidStartNeverSolves", lambda r: r.__setitem__("startValid", False))
    mutate("cellsFreeWalk", lambda r: r["paths"][0].__setitem__("cells", [r["startCell"], (r["startCell"] + 2) % 16]
                                                                 + r["paths"][0]["cells"][1:]))
    mutate("exactOnlyIfReachable", lambda r: r.__setitem__("obst", [c for c in range(16)
                                                                     if c not in (r["startCell"], r["goalCell"])]))
    mutate("statusKnown", lambda r: r.__setitem__("status", "SOLVED"))
    return rows, expect


def _usable_for_gate(e):
    """An accepted exact report whose start and goal cells are far apart (so that walling them off
    makes the goal unreachable) serves as the seed of the corrupted copies."""
    return (e.get("e") == "SolveReport" and e["status"] == "EXACT_SOLUTION" and len(e["paths"]) == 1
            and not e["paths"][0]["approx"] and e["thr"] == "normal" and len(e["paths"][0]["cells"]) >= 3
            and max(abs(e["startCell"] % 4 - e["goalCell"] % 4), abs(e["startCell"] // 4 - e["goalCell"] // 4)) >= 2)


def _binding_gate(ck, good):
    """The trace spec must reject each hand-corrupted copy of an accepted report, naming the clause."""
    rows, expect = _selftest_rows(good)
    p = os.path.join(WORK, "c02-selftest-%d.ndjson" % os.getpid())
    vlib.write_ndjson(p, rows)
    acc, prefix, violated, verdicts, wall = _validate(p)
    os.unlink(p)
    got = {v["line"] - 2: set(v["failed"]) for v in verdicts}
    missed = [expect[i] for i in range(len(expect)) if expect[i] not in got.get(i, set())]
    if acc or missed:
        raise FrameworkError("binding gate: the trace spec accepts corrupted reports (clauses not firing: %s)" % missed)
    ck.set("corrupted_reports_rejected", len(expect))


def _planner_part(ck, binary, tier):
    lines = _matrix(tier, vlib.seed())
    d = vlib.ensure_dir(os.path.join(WORK, "c02-runs-%s-%d" % (tier, os.getpid())))   # private to this invocation
    nshard = min(vlib.NCPU, 16)
    shards = []
    for s in range(nshard):
        sp = os.path.join(d, "runs-%02d.txt" % s)
        with open(sp, "w") as f:
            f.write("\n".join(lines[s::nshard]) + "\n")
        shards.append((binary, sp, os.path.join(d, "trace-%02d.ndjson" % s)))
    with concurrent.futures.ThreadPoolExecutor(nshard) as ex:
        results = list(ex.map(_record_shard, shards))
    for (rc, out, err), (_, sp, tp) in zip(results, shards):
        if rc != 0:
            # a crash leaves a Crash event in the trace; the spec rejects it below, keyed by the run
            evs = vlib.read_ndjson(tp) if os.path.exists(tp) else []
            done = sum(1 for e in evs if e.get("e") == "SolveReport")
            spec_lines = open(sp).read().splitlines()
            culprit = spec_lines[done] if done < len(spec_lines) else "?"
            what = next((e.get("what", "") for e in reversed(evs) if e.get("e") == "Crash"), "")
            kind = "hang" if "watchdog" in what else "crash"
            name = culprit.split()[1] if culprit != "?" else "record"
            rp = ck.replay_file("%s-run-%s.txt" % (kind, name), culprit + "\n")
            ck.violation("%s:%s" % (kind, name), "planner run %s (rc=%s, %s) on run: %s; %s"
                         % ("exceeded its CPU-time watchdog" if kind == "hang" else "crashed / harness aborted",
                            rc, what, culprit, (err or out)[-500:]), rp)
    # concatenate the shards into a few logs (one JVM start each)
    ngroups = 1 if tier == "quick" else 8
    traces = []
    for gi in range(ngroups):
        gp = os.path.join(d, "trace-all-%d.ndjson" % gi)
        with open(gp, "w") as f:
            for (_, _, tp) in shards[gi::ngroups]:
                if os.path.exists(tp):
                    f.write(open(tp).read())
        traces.append(gp)
    with concurrent.futures.ProcessPoolExecutor(min(4, len(traces))) as ex:
        vres = list(ex.map(_validate, traces))
    stats = {}
    events = {}
    rejected_runs = set()
    good = None
    nrej = 0
    for tp, (acc, prefix, violated, verdicts, wall) in zip(traces, vres):
        evs = vlib.read_ndjson(tp)
        for e in evs:
            if e.get("e") == "SolveReport":
                events[(e["run"], e.get("call", 0))] = e
        rejected = {v["line"] for v in verdicts}
        nreports = sum(1 for e in evs if e.get("e") == "SolveReport")
        if not acc and not verdicts:
            # stuck on a line that is neither Reset nor SolveReport (Crash event / malformed)
            bad = evs[prefix] if prefix is not None and prefix < len(evs) else {}
            if bad.get("e") != "Crash":
                raise FrameworkError("trace %s rejected at line %s without a verdict: %s" % (tp, prefix, json.dumps(bad)[:400]))
            nreports = sum(1 for e in evs[:prefix] if e.get("e") == "SolveReport")
        ck.add("traces_validated_against_impl", nreports - len(rejected))
        ck.add("planner_runs", nreports)
        for v in verdicts:
            nrej += 1
            e = evs[v["line"] - 1]
            rejected_runs.add(e["run"])
            for clause in sorted(v["failed"]):
                key = "report:%s:%s" % (e["planner"], clause) + (":resumed" if e.get("resumed") else "")
                st = stats.setdefault(key, {"n": 0, "first": e})
                st["n"] += 1
                if e["run"] < st["first"]["run"]:
                    st["first"] = e
    for key, st in sorted(stats.items()):
        e = st["first"]
        rp = ck.replay_file("run-%s.txt" % key.replace(":", "-"), e["spec"] + "\n")
        with open(rp[:-4] + ".report.json", "w") as f:
            json.dump(e, f, indent=1)
        brief = {k: e[k] for k in ("status", "nAdded")}
        brief["paths"] = [{k: p[k] for k in ("approx", "diff", "lastDist", "lastInGoal", "startIsAStart", "replayMatches",
                                             "allStepsValid", "controlsInBounds", "durationsWholeSteps", "nStates",
                                             "nControls")} for p in e["paths"]]
        ck.violation(key, "%d recorded run(s) of %s rejected by ControlPathContract, clause %s; first: planner=%s system=%s "
                     "layout=%s (obst=%s start=%d goal=%d thr=%s) durations=%d..%d step=%g dcs=%d budget=%d seed=%d -> %s"
                     % (st["n"], e["planner"], key.split(":")[2], e["planner"], e["system"], e["layout"], e["obst"],
                        e["startCell"], e["goalCell"], e["thr"], e["minD"], e["maxD"], e["stepMicro"] / 1e6, e["dcs"],
                        e["budget"], e["seed"], json.dumps(brief)), rp)
    # ---- coverage / vacuity
    per = {}
    for e in events.values():
        p = per.setdefault(e["planner"], {"runs": 0, "EXACT_SOLUTION": 0, "APPROXIMATE_SOLUTION": 0, "TIMEOUT": 0,
                                          "INVALID_START": 0, "INVALID_GOAL": 0, "other": 0, "exactPaths": 0,
                                          "approxPaths": 0, "pathSteps": 0, "dursOutOfRange": 0, "zeroDurations": 0,
                                          "libCheckDisagree": 0, "statesOutstandingAfterClearAndDestroy": 0})
        p["runs"] += 1
        p[e["status"] if e["status"] in p else "other"] += 1
        for q in e["paths"]:
            p["approxPaths" if q["approx"] else "exactPaths"] += 1
            p["pathSteps"] += q["steps"]
            p["dursOutOfRange"] += 0 if q["dursInRange"] else 1
            p["zeroDurations"] += q["zeroDurations"]
        p["libCheckDisagree"] += e["libCheckDisagree"]
        p["statesOutstandingAfterClearAndDestroy"] += e["statesLeakedBeforeTeardown"]   # C03's subject; recorded only
        if good is None and not e.get("resumed") and _usable_for_gate(e) and e["run"] not in rejected_runs:
            good = e
    ck.set("per_planner", per)
    ck.set("reports_rejected", nrej)
    ck.set("resumed_solve_reports", sum(1 for e in events.values() if e.get("resumed")))
    ck.set("evaluations", len(events))
    # non-trivial: the run added a path with at least one control segment (the oracle had something to
    # replay); distinct: by planner, system, step size and the replayed path itself
    nontrivial = {vlib.digest([e["planner"], e["system"], e["stepMicro"], e["obst"],
                               [[q["nStates"], q["steps"], q["lastDist"], q["cells"]] for q in e["paths"]]])
                  for e in events.values() if any(q["nControls"] >= 1 for q in e["paths"])}
    ck.set("distinct_nontrivial", len(nontrivial))
    ck.set("rule", "evaluations = planner runs of the planner x system x layout x duration range x step size x "
                   "directed-sampler k x budget x seed matrix"
                   + (", seeded stratified sample (10 per planner x system x layout)" if tier == "quick" else ", full")
                   + "; non-trivial = the run added a path with >= 1 control segment, distinct by planner, system, "
                     "step size, map and the replayed path (state count, step count, end distance, cell walk)")
    ck.set("propagation_exhaustive", True)
    missing = []
    for pl in PLANNERS:
        p = per.get(pl, {})
        if not p.get("exactPaths") or not p.get("approxPaths"):
            missing.append(pl + ":exact+approx paths")
        if not p.get("INVALID_START"):
            missing.append(pl + ":INVALID_START")
        if not p.get("TIMEOUT"):
            missing.append(pl + ":TIMEOUT")
    if not any(per.get(pl, {}).get("INVALID_GOAL") for pl in ("SyclopRRT", "SyclopEST")):
        missing.append("Syclop:INVALID_GOAL")
    # (a tree that already violates the contract may legitimately lack some outcomes: the
    #  violations are the result then, not a framework error)
    if missing and not ck.violations:
        raise FrameworkError("vacuity gate: outcomes never observed: %s" % missing)
    if good is None and not ck.violations:
        raise FrameworkError("no accepted exact report available for the binding gate")
    if good is not None:
        _binding_gate(ck, good)
    shutil.copyfile(traces[0], os.path.join(WORK, "c02-last-trace.ndjson"))    # kept for --selftest / inspection
    shutil.rmtree(d, ignore_errors=True)
    if good is not None:
        ck.sample({"kind": "accepted SolveReport",
                   "report": {k: good[k] for k in ("planner", "system", "layout", "status", "nAdded", "budget", "seed")},
                   "path": {k: good["paths"][0][k] for k in ("approx", "nStates", "steps", "replayMatches",
                                                             "allStepsValid", "controlsInBounds", "durationsWholeSteps",
                                                             "lastInGoal", "cells")}})


def run(tier):
    ck = Check(PID, tier, "model_checking")
    ck.assumptions += [
        "propagateWhileValid: the input state is valid (documented), state and result are distinct objects "
        "(every caller in the library; aliasing is explored and reported in the evidence only), result is empty "
        "on entry when alloc = true",
        "integer integrator on R^1 for the exhaustive part; planners on three systems (point, car with wrapped "
        "heading and asymmetric control bounds, clamped double integrator) over 4x4 cell maps",
        "the user's propagator is deterministic and one step moves the system by less than half a cell",
        "durations are judged as whole numbers of steps only: KPIECE1 and RRT with intermediate states split motions "
        "into pieces shorter than the minimum control duration by design (counted, not judged)",
        "planner runs are sampled (matrix x seeds), not enumerated; level model_checking refers to the propagation "
        "contract (exhaustive up to N = 8) plus TLC validation of every recorded report",
    ]
    import time
    t0 = time.time()
    binary = build_harness("control", needs_lib=True)
    _propagation_part(ck, binary, 8 if tier == "quick" else 9)
    t1 = time.time()
    _planner_part(ck, binary, tier)
    ck.set("phase_wall_s", {"build+propagation": round(t1 - t0, 1), "planners": round(time.time() - t1, 1)})
    return ck.finish()


def replay(path):
    """runs .txt -> re-run the planner runs and re-validate; cases .ndjson -> replay on propagateWhileValid."""
    binary = build_harness("control", needs_lib=True)
    if path.endswith(".txt"):
        out = os.path.join(WORK, "c02-replay-trace.ndjson")
        rc, so, se = run_cmd([binary, "record", out, path], timeout=6 * 3600)
        print(so[-1500:], se[-1500:])
        acc, prefix, violated, verdicts, wall = _validate(out)
        for e in vlib.read_ndjson(out):
            if e.get("e") == "SolveReport":
                print(json.dumps(e)[:3000])
        for v in verdicts:
            print("REJECTED run %s (%s): clauses %s" % (v["run"], v["planner"], sorted(v["failed"])))
        print("accepted" if acc else "REJECTED")
        return 0 if acc else 1
    if path.endswith(".ndjson") and "trace" in os.path.basename(path):
        acc, prefix, violated, verdicts, wall = _validate(path)
        for v in verdicts:
            print("REJECTED run %s (%s): clauses %s" % (v["run"], v["planner"], sorted(v["failed"])))
        print("accepted" if acc else "REJECTED")
        return 0 if acc else 1
    rc, out, err = run_cmd([binary, "replay-propagate", path])
    print(out[-3000:], err[-1000:])
    return 1 if rc else 0


def selftest():
    """Binding demonstration without a build: corrupt fields of a recorded report, expect rejections."""
    last = os.path.join(WORK, "c02-last-trace.ndjson")
    for f in [last] if os.path.exists(last) else []:
        if True:
            for e in vlib.read_ndjson(f):
                if _usable_for_gate(e):
                    rows, expect = _selftest_rows(e)
                    p = os.path.join(WORK, "c02-selftest.ndjson")
                    vlib.write_ndjson(p, rows)
                    acc, prefix, violated, verdicts, wall = _validate(p)
                    got = {v["line"] - 2: sorted(v["failed"]) for v in verdicts}
                    ok = not acc
                    for i, c in enumerate(expect):
                        hit = c in got.get(i, [])
                        ok = ok and hit
                        print("corrupt -> expect %-32s rejected with %s %s" % (c, got.get(i), "ok" if hit else "MISSED"))
                    return 0 if ok else 1
    print("run ./check C02 first (needs a recorded trace)")
    return 2
