"""G02 - discrete layer of the LTL planner (Automaton, World, ProductGraph).

1. specs/ltl/Automata.tla: TLC reads EVERY word up to length L with the transcription of each
   automaton factory and compares with the declared language (acceptance, liveness = run(),
   distance = distFromAccepting); every word of length L is exported with the contract facts per
   prefix and replayed on the real Automaton / World classes (harness/ltl.cpp words).
2. specs/ltl/Product.tla: every labelling of a small grid (up to symmetry) x co-safety automaton x
   safety automaton x weight scheme: reachable product, solution states, dead moves, minimal lead;
   every configuration is replayed on the real ProductGraph (harness/ltl.cpp product).
3. Random executions recorded from the real classes (hand-built automata, Worlds, products over
   random decompositions) are validated by TLC against specs/ltl/LtlContractTrace.tla.
"""
import json
import os
import shutil
import vlib
from vlib import Check, run_tlc, run_cmd, build_harness, validate_trace, FrameworkError, WORK, log

PID = "G02"
KINDS = ["Accepting", "Coverage", "Sequence", "Disjunction", "Avoidance", "Strict"]


def _cfgdir():
    return vlib.ensure_dir(os.path.join(WORK, "cfg-g02"))


def _aut_cfg(name, np, maxlen, maxlist, repeats, short, dump, kinds=KINDS):
    p = os.path.join(_cfgdir(), name + ".cfg")
    body = ["SPECIFICATION Spec", "CONSTANTS", "  NP = %d" % np, "  MaxLen = %d" % maxlen, "  MaxList = %d" % maxlist,
            "  Kinds = {%s}" % ", ".join('"%s"' % k for k in kinds),
            "  SeqRepeats = %s" % ("TRUE" if repeats else "FALSE"), "  FixedAvoid = FALSE", "  CovAnyLetter = FALSE",
            "  ShortLen = %d" % short, "  DumpOn = %s" % ("TRUE" if dump else "FALSE"),
            # RunIffAvoid is left out on purpose: it is the known behaviour of the pinned AvoidanceAutomaton
            # (Automata_avoid_pinned.cfg shows the counterexample); the verdict on the code comes from the replay
            "INVARIANTS TypeOK LanguageEq RunIffCosafe PruneSound DistIsMinExt Deterministic TotalOnFactories "
            "BfsIsShortestPath AlphabetLemma" + (" Header" if dump else ""),
            "PROPERTY Closure"]
    if dump:
        body.append("ACTION_CONSTRAINT Dump")
    open(p, "w").write("\n".join(body) + "\n")
    return p


def _prod_cfg(name, np, w, h, labels, cos, sas, schemes, sym, bound, dump):
    p = os.path.join(_cfgdir(), name + ".cfg")
    body = ["SPECIFICATION Spec", "CONSTANTS", "  NP = %d" % np, "  W = %d" % w, "  H = %d" % h,
            "  LabelCodes = {%s}" % ", ".join(map(str, labels)), "  CosafeCodes = {%s}" % ", ".join(map(str, cos)),
            "  SafeCodes = {%s}" % ", ".join(map(str, sas)), "  Schemes = {%s}" % ", ".join('"%s"' % s for s in schemes),
            "  Symmetry = %s" % ("TRUE" if sym else "FALSE"), "  PathBound = %d" % bound,
            "  DumpOn = %s" % ("TRUE" if dump else "FALSE"),
            "INVARIANTS ExploreInReach SolutionDef DistCertificate LeadNeverLeavesSafe LeadWordSafe LeadReachesStart "
            "LanguageBound LanguageTight" + (" Header" if dump else ""),
            "PROPERTY LeadWeight"]
    open(p, "w").write("\n".join(body) + "\n")
    return p


def _parse(out, tag):
    rows = []
    for line in out.splitlines():
        if line.startswith(tag + " "):
            rows.append(json.loads(line[len(tag) + 1:]))
    return rows


def _hrun(args, timeout=3000, env=None):
    """run the harness; retry once when another check re-links libompl at that moment"""
    for attempt in range(3):
        rc, out, err = run_cmd(args, timeout=timeout, env=env)
        if rc == 127 or "file too short" in err or "cannot open shared object" in err:
            with vlib._Lock("build-plain"):
                pass
            continue
        return rc, out, err
    return rc, out, err


def _expected_violation(ck, module, cfg, inv):
    """a committed configuration whose counterexample documents a known shape of the pinned code"""
    res = run_tlc(module, cfg=cfg, workers=1, timeout=600)
    if res.error:
        raise FrameworkError(res.error)
    if res.violated != inv:
        raise FrameworkError("%s: expected TLC to violate %s, got %s" % (cfg, inv, res.violated))
    ck.add("states", res.distinct)
    ck.add("transitions", res.generated)
    ck.tlc_runs.append(dict(res.summary(cfg), expected_violation=inv))


_written = set()


def _replay(ck, binary, mode, path, label, counts):
    rc, out, err = _hrun([binary, mode, path])
    summ = _parse(out, "SUMMARY")
    if not summ:
        rp = ck.replay_file("%s-%s.ndjson" % (mode, label))
        shutil.copyfile(path, rp)
        if "CRASH" in out or rc in (70, 77, 78) or rc < 0:
            ck.violation("%s:crash" % mode, "ltl harness crashed while replaying specification scenarios (%s): %s"
                         % (label, (out + err)[-600:]), rp)
            return
        raise FrameworkError("ltl %s produced no summary (rc=%s): %s" % (mode, rc, (out + err)[-2000:]))
    summ = summ[0]
    log("[G02] %s: %d scenarios replayed, %d failures" % (label, summ["scenarios"], summ["failures"]))
    ck.add("traces_validated_against_impl", summ["scenarios"])
    ck.add("replayed_steps", summ["steps"])
    for k, v in summ["count"].items():
        counts[k] = counts.get(k, 0) + v
    for f in _parse(out, "FAIL"):
        rp = ck.replay_file("%s-%s.ndjson" % (mode, f["key"].replace(":", "_").replace("/", "_")))
        # a self-contained artefact: the failing line of the export (plus its header for words); the first
        # scenario of a key is the one that is reported, later exports do not overwrite it
        if f["key"] not in _written:
            _written.add(f["key"])
            with open(rp, "w") as o:
                o.write(json.dumps({"replay": mode, "key": f["key"], "why": f["why"], "scenario": f["scenario"]}) + "\n")
                for line in _find_lines(path, mode, f["scenario"]):
                    o.write(line)
        ck.violation(f["key"], "%s [%d of %d scenarios of %s] first: %s" %
                     (f["why"], summ["fail_keys"].get(f["key"], 1), summ["scenarios"], label,
                      json.dumps(f["scenario"])[:700]), rp)
    return summ


def _find_lines(path, mode, sc):
    """the lines of the export that reproduce a failing scenario"""
    out = []
    with open(path) as f:
        for line in f:
            j = json.loads(line)
            if mode == "words":
                if j.get("k") == sc["kind"] and j.get("p") == sc["props"] and \
                        (j.get("hdr") and j.get("np") == sc["np"] or j.get("w") == sc["word"]):
                    out.append(line)
            elif mode == "grid":
                if all(j.get(k) == sc.get(k) for k in ("len", "dim", "cell", "low")) and (("pts" in j) if "point" in sc else j.get("r") == sc.get("r")):
                    out.append(line)
                    break
            else:
                if all(j.get(k) == sc.get(k) for k in ("W", "H", "lab", "start", "co", "sa", "ws")):
                    out.append(line)
                    break
    return out


def _export(ck, module, cfg, name, path):
    n = [0]
    with open(path, "w") as f:
        def sink(obj):
            f.write(json.dumps(obj, separators=(",", ":")) + "\n")
            n[0] += 1
        res = run_tlc(module, cfg=cfg, workers=vlib.NCPU, timeout=3000, json_sink=sink)
        for line in res.out.splitlines():      # buffer tail
            if line.startswith("{") and line.endswith("}"):
                try:
                    sink(json.loads(line))
                except ValueError:
                    pass
    ck.tlc(res, name)
    if res.violated:
        raise FrameworkError("%s: TLC reports %s violated in the model:\n%s" % (name, res.violated, res.out[-2500:]))
    log("[G02] %s: %d states, %d lines exported in %.1fs" % (name, res.distinct, n[0], res.wall))
    return n[0]


REJECT_TEXT = {
    "admissible": "step() answered a state that no entry of the transition map admits for that World",
    "same-question-same-answer": "step() answered the same question differently",
    "run": "run() disagrees with the transition maps",
    "value": "the value reported differs from the contract's",
    "equal-worlds-hash-equal": "two equal Worlds (operator==) have different std::hash values",
    "stale-after-mutation": "the answer is only explained by a version of the automaton that has since been changed "
                            "(setAccepting / addTransition do not invalidate the memoised answers)",
}


def run(tier):
    ck = Check(PID, tier, "model_checking")
    _written.clear()
    for old in os.listdir(ck.replay_dir):     # artefacts of earlier runs would only mislead
        os.remove(os.path.join(ck.replay_dir, old))
    ck.assumptions += ["CoverageAutomaton reads mutually exclusive propositions (documented)",
                       "letters handed to the factories' automata are total valuations",
                       "DisjunctionAutomaton over an empty list is not judged",
                       "edge weights are non-negative integers (Dijkstra's precondition)"]
    binary = build_harness("ltl", needs_lib=True, san=None)
    quick = tier == "quick"
    counts = {}

    # 0. the two committed counterexamples that pin known shapes of the code
    _expected_violation(ck, "ltl/Automata", "Automata_avoid_pinned.cfg", "RunIffAvoid")
    _expected_violation(ck, "ltl/Automata", "Automata_cov_anyletter.cfg", "Deterministic")
    res = run_tlc("ltl/Automata", cfg="Automata_avoid_fixed.cfg", workers=1, timeout=600)
    ck.tlc(res, "avoid-fixed")
    if res.violated:
        raise FrameworkError("Automata_avoid_fixed.cfg: %s violated" % res.violated)

    # 1. automata: all words
    if quick:
        auts = [("aut-3x3", 3, 3, 3, True, 2), ("aut-2x5", 2, 5, 2, True, 2), ("aut-1x6", 1, 6, 1, True, 2)]
    else:
        auts = [("aut-3x5", 3, 5, 3, False, 3), ("aut-3x4r", 3, 4, 3, True, 2), ("aut-2x7", 2, 7, 2, True, 3),
                ("aut-1x9", 1, 9, 1, True, 3)]
    for name, np_, L, ml, rep, short in auts:
        path = os.path.join(WORK, "g02-%s.ndjson" % name)
        kinds = KINDS if not name.endswith("r") else ["Sequence"]
        n = _export(ck, "ltl/Automata", _aut_cfg(name, np_, L, ml, rep, short, True, kinds), name, path)
        ck.set("exported_" + name, n)
        summ = _replay(ck, binary, "words", path, name, counts)
        if summ and not summ["failures"]:
            ck.sample({"kind": "words replayed", "config": name, "leaves": summ["scenarios"], "steps": summ["steps"]})

    # 2. product graph: all configurations
    #    codes: 1000*kind + proposition list; kinds 1 Accepting 2 Coverage 3 Sequence 4 Disjunction 5 Avoidance 6 Strict
    if quick:
        prods = [("prod-2x2", 3, 2, 2, [0, 1, 2, 4], [2012, 3012, 3021, 4012, 6012], [1000, 5003], ["unit", "dst", "zero"], True, 5),
                 ("prod-3x2", 2, 3, 2, [0, 1, 2], [2012, 6012], [1000, 5002], ["dst"], True, 0)]
    else:
        prods = [("prod-2x2", 3, 2, 2, [0, 1, 2, 4, 5, 6], [2012, 3012, 3021, 4012, 6012, 3121], [1000, 5003],
                  ["unit", "dst", "zero"], True, 6),
                 ("prod-2x2-nosym", 3, 2, 2, [0, 1, 2, 4], [2012, 3021, 6012], [1000, 5003, 5001], ["dst"], False, 0),
                 ("prod-3x2", 3, 3, 2, [0, 1, 2, 4], [2012, 6012], [1000, 5003], ["dst"], True, 0),
                 ("prod-3x2-3", 3, 3, 2, [0, 1, 2, 4], [2123, 3123], [1000], ["dst"], True, 0)]
    for name, np_, w, h, labels, cos, sas, schemes, sym, bound in prods:
        path = os.path.join(WORK, "g02-%s.ndjson" % name)
        n = _export(ck, "ltl/Product", _prod_cfg(name, np_, w, h, labels, cos, sas, schemes, sym, bound, True), name, path)
        ck.set("exported_" + name, n)
        summ = _replay(ck, binary, "product", path, name, counts)
        if summ and not summ["failures"]:
            ck.sample({"kind": "product configurations replayed", "config": name, "configurations": summ["scenarios"]})

    # 2b. GridDecomposition: ids <-> coordinates, neighbours, points on cell boundaries
    shapes = [11, 21, 31, 41, 12, 22, 32, 42, 13, 23, 33, 14, 24] + ([52, 43, 34, 25] if not quick else [])
    gcfg = os.path.join(_cfgdir(), "grid.cfg")
    open(gcfg, "w").write("SPECIFICATION Spec\nCONSTANTS\n  Shapes = {%s}\n  Cell = 2\n  LowMags = {0, 3}\n  DumpOn = TRUE\n"
                          "INVARIANTS InRange CoordBijection NeighboursAreMoore NeighboursSymmetric PartitionOK Emit\n"
                          % ", ".join(map(str, shapes)))
    path = os.path.join(WORK, "g02-grid.ndjson")
    n = _export(ck, "ltl/GridDecomp", gcfg, "grid", path)
    ck.set("exported_grid", n)
    _replay(ck, binary, "grid", path, "grid", counts)

    # vacuity gates over the replays
    ck.set("replay_counts", counts)
    # (measured on what the specification exported, so that a failing replay cannot look vacuous)
    need = ["%s:accepted" % k for k in KINDS] + ["%s:rejected" % k for k in KINDS if k != "Accepting"] + \
           ["Strict:dead", "Avoidance:dead", "fresh_automata", "spec_configs_with_ties", "spec_configs_without_solution",
            "spec_configs_with_solution", "spec_dead_moves", "spec_states_without_lead", "spec_states_with_lead",
            "points_on_cell_boundaries", "neighbours"]
    missing = [k for k in need if not counts.get(k)]
    if missing:
        raise FrameworkError("vacuity gate: never offered by the exports: %s" % missing)
    if not ck.violations and not ck.known_hits:
        # a clean replay must have gone all the way
        short = [k for k in ("leads_checked", "leads_from_other_states", "dead_moves", "samples") if not counts.get(k)]
        if short or not any(counts.get("nolead_" + o) for o in ("empty", "exception")):
            raise FrameworkError("vacuity gate: clean replay but never reached: %s / a lead that does not exist" % short)

    # 3. recorded executions validated against the contract
    recs = [400, 400] if quick else [1500] * 4
    for i, nexec in enumerate(recs):
        tpath = os.path.join(WORK, "g02-trace-%d.ndjson" % i)
        rc, out, err = _hrun([binary, "record", tpath, str(nexec)], timeout=1200,
                             env={"VERIF_SEED": str(vlib.seed() * 977 + i)})
        if rc != 0:
            rp = ck.replay_file("trace-%d.ndjson" % i)
            if os.path.exists(tpath):
                shutil.copyfile(tpath, rp)
            ck.violation("record:crash", "the real classes crashed under a random execution: " + (out + err)[-600:], rp)
            continue
        rsum = _parse(out, "SUMMARY")[0]
        rejects = {}
        acc, prefix, res = validate_trace("ltl/LtlContractTrace", tpath, timeout=2400,
                                          json_sink=lambda o: rejects.setdefault(o.get("reject"), o))
        for line in res.out.splitlines():
            if line.startswith('{"') and "reject" in line:
                try:
                    o = json.loads(line)
                    rejects.setdefault(o.get("reject"), o)
                except ValueError:
                    pass
        evs = vlib.read_ndjson(tpath)
        ck.add("trace_events", len(evs))
        for m, n in rsum["modes"].items():
            ck.add("executions_" + m, n)
        kinds = {}
        for e in evs:
            kinds[e["e"]] = kinds.get(e["e"], 0) + 1
        for k, n in kinds.items():
            ck.add("events_" + k, n)
        if not acc:
            rp = ck.replay_file("trace-%d.ndjson" % i)
            shutil.copyfile(tpath, rp)
            bad = evs[prefix] if prefix is not None and prefix < len(evs) else {}
            ck.violation("trace:stopped:" + str(bad.get("e")), "recorded execution not accepted by LtlContractTrace at line %d: %s"
                         % ((prefix or 0) + 1, json.dumps(bad)[:500]), rp)
            continue
        ck.add("traces_validated_against_impl", nexec)
        if i == 0:
            ck.sample({"kind": "recorded trace excerpt", "events": evs[1:5]})
        for ln in sorted(k for k in rejects if k is not None):
            o = rejects[ln]
            if o["why"].startswith("recorder:"):
                raise FrameworkError("recorder produced an input outside the contract's assumptions at line %d: %s" % (ln, o["why"]))
            key = "trace:%s:%s:%s" % (o["mode"], o["ev"], o["why"])
            if o["why"] == "stale-after-mutation":
                # one root cause per memo: the transition maps (step / run / entries) and the distances
                key = "trace:stale-after-mutation:" + ("distance" if o["ev"] == "Dist" else "transitions")
            # the execution around the refused line: from its Reset to the next one
            a = ln - 1
            while a > 0 and evs[a]["e"] != "Reset":
                a -= 1
            b = ln
            while b < len(evs) and evs[b]["e"] != "Reset":
                b += 1
            rp = ck.replay_file("trace-%s.ndjson" % key.replace(":", "_").replace("(", "").replace(")", "").replace(",", "_"))
            if key not in _written:
                _written.add(key)
                vlib.write_ndjson(rp, evs[a:b])
            ck.violation(key, "%s: line %d of the recorded execution is refused by the contract (%s): %s" %
                         (REJECT_TEXT.get(o["why"], o["why"]), ln, o["why"], json.dumps(evs[ln - 1])[:500]), rp)
    need_ev = ["New", "AddState", "SetAcc", "SetStart", "AddTr", "Load", "Step", "Run", "Dist", "IsAcc", "Obs",
               "WSat", "WEq", "WGet", "Decomp", "PBuild", "PStep", "PLead"]
    missing = [k for k in need_ev if not ck.cov.get("events_" + k)]
    if missing:
        raise FrameworkError("vacuity gate: event kinds never recorded: %s" % missing)
    ck.set("exhaustive", True)
    return ck.finish()


def replay(path):
    """Re-execute a replay artefact: a recorded trace is re-validated, an export excerpt re-replayed."""
    base = os.path.basename(path)
    if base.startswith("trace"):
        rejects = {}
        acc, prefix, res = validate_trace("ltl/LtlContractTrace", path, json_sink=lambda o: rejects.setdefault(o.get("reject"), o))
        for ln in sorted(k for k in rejects if k is not None):
            print("REFUSED line %d: %s" % (ln, json.dumps(rejects[ln])))
        if not acc:
            print("NOT ACCEPTED: stopped at line %d" % ((prefix or 0) + 1))
        print("accepted" if acc and not rejects else "rejected")
        return 0 if acc and not rejects else 1
    binary = build_harness("ltl", needs_lib=True, san=None)
    lines = open(path).read().splitlines()
    mode = "words"
    if lines and '"replay"' in lines[0]:
        mode = json.loads(lines[0])["replay"]
        print(lines[0])
        lines = lines[1:]
    elif base.startswith("product") or base.startswith("grid"):
        mode = base.split("-")[0]
    tmp = os.path.join(WORK, "g02-replay-input.ndjson")
    open(tmp, "w").write("\n".join(lines) + "\n")
    rc, out, err = _hrun([binary, mode, tmp])
    print(out[-3000:])
    summ = _parse(out, "SUMMARY")
    return 1 if rc or not summ or summ[0]["failures"] else 0
