"""C14 - Dubins and Reeds-Shepp distances are the lengths of real, optimal curves.

1. TLC enumerates the DECISION STRUCTURE of DubinsStateSpace.cpp / ReedsSheppStateSpace.cpp over abstract inputs
   (specs/spaces/DubinsClass.tla over DubinsTable.tla: trivial shortcut, long/short, the 16-class table with its
   switching-function sign tests, the five running-minimum comparisons of the exhaustive search, the symmetrised
   choice; ReedsSheppClass.tla over ReedsSheppTable.tla: 18 rows, 8 formulas, 44 candidate evaluations with their
   timeflip / reflect / backwards transforms, 48 words; CurveIntegrator.tla: the 3- and 5-segment integrators incl.
   the reversed Dubins word).  Table sanity is decided on the models (words among the six, total and deterministic
   tree, closure of the class table under mirror image and path reversal, legal alternation of every Reeds-Shepp
   row, <= 2 cusps, closure of the 48 words under the three symmetries, integrator tiles [0, 1] without gap or
   overlap for every word shape and zero-length pattern).  Every terminal state is one BRANCH CASE, every
   transition one decision outcome; all are exported.
2. harness/curves.cpp finds, for every exported case, concrete pose pairs that land in it (seeded sampling with the
   harness's own long-double evaluation of d, alpha, beta, quadrants and switching functions, walking the tree the
   MODEL exported), bisects towards every decision node and records a fan of pairs 1e-12 .. 1e-4 on either side of
   it, adds the families of the quantifier (same position, collinear, closer than four radii, headings on the
   quadrant boundaries exactly and one ulp off, 1e3 radii apart, prefix end points as targets) and records
   fixed-point observations of the real spaces through their public API, five turning radii.
3. TLC validates every recorded event against specs/spaces/CurveContract.tla (one named clause per sentence of the
   property) through CurveContractTrace.tla (report-and-advance).  The VERDICT is the contract; whether the real
   code picked the word the transcribed table predicts is a drift metric only.

Tolerances (units of 1e-8 * rho * max(1, d); justification from measured distributions, see TOLERANCES below).
"""
import concurrent.futures
import json
import os
import shutil
import time
import vlib
from vlib import Check, run_tlc, run_cmd, build_harness, FrameworkError, WORK, log

PID = "C14"

# Measured on the pinned tree (harness `measure`, 650 000 random pose pairs = 1.26 M Dubins / symmetrised-Dubins
# and 0.65 M Reeds-Shepp INTERIOR events, five radii; values normalised by rho * max(1, d)):
#   |reported - shortest of six|  max 1.2e-14     |arc - reported| max 3.7e-14     step residual max 2.4e-14
#   end position max 1.1e-14, end heading 1.7e-13 rad      RS symmetry max 5.3e-14      RS above Dubins max 7.7e-15
# and on the boundary fans / degenerate families of 3 thorough recordings: excess of the library's word over the
# optimum (float switching functions) max 1.5e-7; end pose up to 1.3e-6 / 7.9e-7 rad (the trivial shortcut
# d < 1e-6 and the 5e-7 angle snapping of mod2pi: the library's own resolution DUBINS_EPS = 1e-6, asserted in its
# solvers as (1+p) * 1e-6 resp. 2e-6).  The classes below are >= 1e7 times the interior maxima and >= 60 times the
# largest boundary excess; a structural error (wrong word, wrong sign, wrong segment) is O(1e-2 .. 1) normalised.
TOLERANCES = {"TolStep": 100, "TolEnd": 500, "TolYaw": 500, "TolArc": 100, "TolShort": 1000, "TolSym": 100,
              "TolOrder": 100, "TolPrefix": 1000, "Res": 200}

# Combinations of the five running-minimum comparisons of dubinsExhaustive (rsr, rsl, lsr, rlr, lrl: "is this word
# strictly shorter than the best so far") that no short configuration produces.  Argument: measured, not proven -
# 0 of 19 896 928 short configurations (harness `scan`, seeds 201..204, counting also non-interior ones) fall into
# any of them while the rarest of the other 17 occurs 88 334 times, and the 17 reachable ones are exactly a union
# of orbits of the mirror / reversal symmetries of the problem (counts pair up: FTTFF 88 334 / TTTFF 88 600,
# FTFTF 157 648 / TTFFT 157 679 / FFTTF 157 704 / TFTFT 157 922, ...).  The list is SELF-CHECKING: a recorded pair
# that lands in an excluded combination is a FrameworkError.
EXCLUDED_SHORT = ["FFTFT", "FFTTT", "FTFFT", "FTFTT", "FTTFT", "FTTTF", "FTTTT", "TFFFT", "TFTTF", "TFTTT",
                  "TTFTF", "TTFTT", "TTTFT", "TTTTF", "TTTTT"]
EX_NAMES = ["rsr", "rsl", "lsr", "rlr", "lrl"]

RULE = ("one event = one pose pair observed in one space (Dubins, symmetrised Dubins, Reeds-Shepp; radii 0.1, 0.5, 1, "
        "2.5, 10). A case is non-trivial when the pair lies in the interior of a branch case of the TLC-enumerated "
        "decision structure (every consulted quantity further than 1e-3 from its threshold) or within 1e-4 of a "
        "decision node found by bisection; distinct = distinct (space, branch case) hit by an interior pair plus "
        "distinct (decision node, side).")
ASSUMPTIONS = [
    "poses in bounds, headings in [-pi, pi], turning radius > 0",
    "equalities of the property are judged with absolute tolerances in units of 1e-8 * rho * max(1, d): step / arc / "
    "symmetry / order 1e-6, end pose 5e-6 (and 5e-6 rad), shortest-of-six and prefix 1e-5 (the library evaluates its "
    "switching functions in single precision on purpose)",
    "'equals the shortest of the six words' is judged against the envelope of the independent optimum over the "
    "targets within the library's documented resolution (2e-6 rho, 2e-6 rad) of the stated target: the Dubins "
    "distance is discontinuous and the library snaps angles within 5e-7 of a full turn",
    "Reeds-Shepp <= Dubins is not judged for poses closer than 2e-6 rho (the Dubins space calls them one pose)",
    "prefix clause in the symmetrised Dubins space: 'the distance to the point at t is t times the total' is judged as "
    "'not more than' (the distance to a point of a curve driven backwards can be shorter than the prefix by "
    "construction of the symmetrisation; constant SymPrefixEquality)",
    "no independent Reeds-Shepp optimum: Reeds-Shepp optimality is only judged through symmetry, <= Dubins and the "
    "prefix clause, as the property states it",
]


def _short_id(bits):
    return "triv=F/long=F/" + "/".join("%s=%s" % (n, b) for n, b in zip(EX_NAMES, bits))


EXCLUDED_IDS = [_short_id(b) for b in EXCLUDED_SHORT]


class _Res:
    def __init__(self, d):
        self.error = d["error"]
        self.generated = d["generated"]
        self.distinct = d["distinct"]
        self._s = d["summary"]

    def summary(self, name):
        return self._s


def _retry(cmd, timeout=None, env=None):
    for _ in range(6):
        rc, out, err = run_cmd(cmd, timeout=timeout, env=env)
        if rc == 127 and "error while loading shared libraries" in err:
            time.sleep(10)
            continue
        break
    return rc, out, err


# --------------------------------------------------------------------------- 1. the models

MODELS = [("spaces/DubinsClass", None), ("spaces/DubinsClass", "DubinsClass_dump.cfg"),
          ("spaces/ReedsSheppClass", None), ("spaces/ReedsSheppClass", "ReedsSheppClass_dump.cfg"),
          ("spaces/CurveIntegrator", None)]


def _model(args):
    module, cfg = args
    res = run_tlc(module, cfg=cfg, workers=1, timeout=900, heap="2g")
    return {"module": module, "cfg": cfg or "default", "error": res.error, "violated": res.violated,
            "generated": res.generated, "distinct": res.distinct, "json": res.json, "tail": res.out[-1500:],
            "summary": res.summary("%s%s" % (module.split("/")[-1], "-dump" if cfg else ""))}


def model_phase(ck):
    with concurrent.futures.ThreadPoolExecutor(max_workers=max(1, min(5, vlib.NCPU))) as ex:
        results = list(ex.map(_model, MODELS))
    rows, seen, edges = [], set(), {"DubinsClass": [], "ReedsSheppClass": []}
    for r in results:
        ck.tlc(_Res(r), r["summary"]["config"])
        if r["violated"]:
            raise FrameworkError("model %s (%s) violates %s: the transcription is not a model of the code's own "
                                 "structure\n%s" % (r["module"], r["cfg"], r["violated"], r["tail"]))
        for j in r["json"]:
            k = j.get("k")
            if k == "edge":
                if r["cfg"] != "default":
                    edges[r["module"].split("/")[-1]].append(j)
                continue
            if r["cfg"] != "default":
                continue
            if k in ("dcase", "scase"):
                j = dict(j, k="dcase", id="/".join(j["trail"]))
            key = json.dumps(j, sort_keys=True)
            if key not in seen:
                seen.add(key)
                rows.append(j)
    for eid in EXCLUDED_IDS:
        rows.append({"k": "excluded", "id": eid})
    tables = {"dcase": {}, "rcase": {}, "icase": set(), "nodes": [], "qpos": 0, "rwin": 0}
    for j in rows:
        k = j["k"]
        if k == "dcase":
            tables["dcase"][j["id"]] = j["word"]
        elif k == "rcase":
            tables["rcase"][j["id"]] = j
        elif k == "icase":
            tables["icase"].add((j["kind"], j["w"], bool(j["rev"]), j["land"]))
        elif k == "node":
            tables["nodes"].append(j["id"])
        elif k == "qpos":
            tables["qpos"] += 1
        elif k == "rwin":
            tables["rwin"] += 1
    n_d = len([i for i in tables["dcase"] if not i.startswith("sym")])
    n_s = len([i for i in tables["dcase"] if i.startswith("sym")])
    if (n_d, n_s, len(tables["rcase"]), len(tables["icase"]), len(tables["nodes"]), tables["qpos"]) != (75, 12, 48, 104, 36, 64):
        raise FrameworkError("unexpected size of the exported tables: %s" % [n_d, n_s, len(tables["rcase"]),
                                                                            len(tables["icase"]), len(tables["nodes"]), tables["qpos"]])
    for eid in EXCLUDED_IDS:
        if eid not in tables["dcase"]:
            raise FrameworkError("excluded case %s is not a case of the model" % eid)
    tables["dedges"] = {(json.dumps(e["src"]["trail"]), json.dumps(e["dst"]["trail"])) for e in edges["DubinsClass"]}
    tables["redges"] = len({json.dumps(e["dst"], sort_keys=True) for e in edges["ReedsSheppClass"]})
    path = os.path.join(WORK, "c14-tables.ndjson")
    vlib.write_ndjson(path, rows)
    ck.set("branch_cases", {"dubins": n_d, "dubins_excluded_unreachable": len(EXCLUDED_IDS), "symmetrised": n_s,
                            "reeds_shepp_words": len(tables["rcase"]), "reeds_shepp_winners": tables["rwin"],
                            "integrator": len(tables["icase"]), "decision_nodes": len(tables["nodes"]),
                            "quadrant_position_pairs": tables["qpos"], "dubins_transitions": len(tables["dedges"]),
                            "reeds_shepp_transitions": tables["redges"]})
    return path, tables


# --------------------------------------------------------------------------- 2. recording

def _parse(out, tag):
    for line in out.splitlines():
        if line.startswith(tag + " "):
            return json.loads(line[len(tag) + 1:])
    return None


def _record(args):
    binary, tables, out, tier, part = args
    rc, so, se = _retry([binary, "record", tables, out, tier, str(part)], timeout=3000,
                        env={"VERIF_SEED": str(vlib.seed())})
    return {"rc": rc, "out": so, "err": se, "path": out, "part": part}


def _merge(total, summ):
    for k, v in summ.items():
        if isinstance(v, dict) and k != "stat":
            t = total.setdefault(k, {})
            for kk, vv in v.items():
                t[kk] = t.get(kk, 0) + vv
        elif k == "stat":
            t = total.setdefault("stat", {})
            for kk, vv in v.items():
                cur = t.get(kk)
                if cur is None or vv[0] > cur[0]:
                    t[kk] = [vv[0], vv[1] + (cur[1] if cur else 0), vv[2]]
                else:
                    cur[1] += vv[1]
        elif isinstance(v, (int, float)):
            total[k] = total.get(k, 0) + v


def record_phase(ck, binary, tables_path, tier):
    parts = 1 if tier == "quick" else max(1, min(5, vlib.NCPU))
    jobs = [(binary, tables_path, os.path.join(WORK, "c14-trace-%d.ndjson" % p), tier, p) for p in range(parts)]
    with concurrent.futures.ThreadPoolExecutor(max_workers=parts) as ex:
        recs = list(ex.map(_record, jobs))
    total = {}
    paths = []
    for r in recs:
        summ = _parse(r["out"], "SUMMARY")
        if summ is None:
            if "CRASH" in r["out"] or r["rc"] in (70, 77, 78) or r["rc"] < 0:
                rp = ck.replay_file("trace-crash-%d.ndjson" % r["part"])
                if os.path.exists(r["path"]):
                    shutil.copyfile(r["path"], rp)
                last = ""
                if os.path.exists(r["path"]):
                    lines = open(r["path"]).read().splitlines()
                    pairs = [x for x in lines if '"e":"Pair"' in x]
                    last = json.loads(pairs[-1]).get("repro", "") if pairs else ""
                ck.violation("c14:crash", "curves harness crashed while observing the real spaces (rc=%s); last recorded "
                             "pair: %s; %s" % (r["rc"], last, (r["err"] or r["out"])[-400:]), rp)
                paths.append(r["path"])
                continue
            raise FrameworkError("recording failed (rc=%s): %s" % (r["rc"], (r["out"] + r["err"])[-2000:]))
        _merge(total, summ)
        paths.append(r["path"])
    return total, paths


# --------------------------------------------------------------------------- 3. validation

def _trace_cfg(extra=None):
    d = vlib.ensure_dir(os.path.join(WORK, "cfg-c14"))
    p = os.path.join(d, "trace%s.cfg" % ("-" + vlib.digest(extra) if extra else ""))
    consts = dict(TOLERANCES)
    consts["SymPrefixEquality"] = "FALSE"
    if extra:
        consts.update(extra)
    # acceptance is the printed verdict (no counterexample to print: much faster than violating NotAccepted)
    body = ["SPECIFICATION TSpec", "CONSTANTS"] + ["  %s = %s" % kv for kv in sorted(consts.items())] + ["CHECK_DEADLOCK FALSE"]
    open(p, "w").write("\n".join(body) + "\n")
    return p


def _validate(path):
    res = run_tlc("spaces/CurveContractTrace", cfg=_trace_cfg(), workers=1, timeout=3000, env={"TRACE": path}, heap="3g")
    verdict = [j for j in res.json if j.get("k") == "verdict"]
    refused = {}
    for j in res.json:
        if j.get("k") == "refused":
            refused[j["line"]] = j
    # vlib can leave spec-printed JSON in res.out (buffer tail)
    for line in res.out.splitlines():
        s = line.strip().strip('"').replace('\\"', '"')
        if s.startswith("{") and s.endswith("}"):
            try:
                j = json.loads(s)
            except ValueError:
                continue
            if j.get("k") == "refused":
                refused[j["line"]] = j
            elif j.get("k") == "verdict":
                verdict.append(j)
    return {"path": path, "error": res.error, "violated": res.violated, "verdict": verdict[-1] if verdict else None,
            "refused": sorted(refused.values(), key=lambda x: x["line"]), "generated": res.generated,
            "distinct": res.distinct, "summary": res.summary("trace-" + os.path.basename(path)), "tail": res.out[-1200:]}


def _split(paths, chunk):
    out = []
    n = 0
    for p in paths:
        lines = open(p).read().splitlines(True)
        for i in range(0, len(lines), chunk):
            q = os.path.join(WORK, "c14-chunk-%d.ndjson" % n)
            with open(q, "w") as f:
                f.writelines(lines[i:i + chunk])
            out.append(q)
            n += 1
    return out


def _real(v, ev):
    """fixed point -> multiples of rho * max(1, d)"""
    return v / 1e8


def _describe(ev, failed):
    f = lambda k: ("%.9g" % (ev[k] / 1e8)) if k in ev else "-"
    parts = ["clauses refused: %s" % ", ".join(sorted(failed)), "space %s, family %s, branch %s" % (ev["sp"], ev["fam"], ev["br"]),
             ev["repro"], "(lengths in multiples of rho*max(1,d))", "reported=%s reverse=%s straight=%s arc=%s" %
             (f("rep"), f("repRev"), f("sl"), f("arc"))]
    if "opt" in ev:
        parts.append("shortest-of-six=%s envelope=[%s, %s] library word=%s table word=%s" %
                     (f("opt"), f("optLo"), f("optHi"), ev.get("lw"), ev.get("pw")))
    if ev["sp"] == "rs":
        parts.append("word row %s signs %s dubins fwd=%s back=%s" % (ev.get("row"), ev.get("signs"), f("dubF"), f("dubB")))
    parts.append("step residual=%s end position=%s end heading=%.3g rad cusps observed/word=%s/%s forwards/backwards steps=%s/%s" %
                 (f("vres"), f("endPos"), ev["endYaw"] / 1e8, ev["cusp"], ev["wcusp"], ev["fwd"], ev["back"]))
    if "PrefixOptimal" in failed and len(ev.get("pre", [])) == 7:
        parts.append("distance to the point at k/8: %s vs k/8 of the total: %s" %
                     (["%.9g" % (x / 1e8) for x in ev["pre"]], ["%.9g" % (k * ev["rep"] / 8e8) for k in range(1, 8)]))
    return "; ".join(parts)


def _key(ev, clause):
    # a reported word with an arc of (almost) a full turn is the signature of one specific mechanism (a float-precision
    # switching function evaluated across the 0 / 2pi seam of an arc angle): keyed on its own
    if clause == "ShortestOfSix":
        return "%s:ShortestOfSix:%s" % (ev["sp"], "full-turn-arc" if ev.get("fta") else ev["br"])
    if clause == "PrefixOptimal" and (ev.get("fta") or any(ev.get("preFta", []))):
        return "%s:PrefixOptimal:full-turn-arc" % ev["sp"]
    return "%s:%s" % (ev["sp"], clause)


def validate_phase(ck, paths, tier):
    chunks = _split(paths, 2500 if tier == "quick" else 25000)
    with concurrent.futures.ThreadPoolExecutor(max_workers=max(1, min(8, vlib.NCPU))) as ex:
        vals = list(ex.map(_validate, chunks))
    cnt, hit, sides, lines = {}, set(), set(), 0
    pending = {}
    ok = True
    for v in vals:
        ck.tlc(_Res(v), v["summary"]["config"])
        if v["verdict"] is None:
            ok = False
            rp = ck.replay_file("trace-rejected.ndjson")
            shutil.copyfile(v["path"], rp)
            ck.violation("c14:trace-rejected", "recorded observations not accepted by CurveContractTrace (crash event or "
                         "malformed line): " + v["tail"][-400:], rp)
            continue
        ver = v["verdict"]
        lines += ver["lines"]
        for k, x in ver["cnt"].items():
            cnt[k] = cnt.get(k, 0) + x
        hit.update(ver["hit"])
        sides.update(ver["sides"])
        if v["refused"]:
            evs = open(v["path"]).read().splitlines()
            for r in v["refused"]:
                ev = json.loads(evs[r["line"] - 1])
                for clause in r["failed"]:
                    key = _key(ev, clause)
                    p = pending.setdefault(key, {"n": 0, "first": None})
                    p["n"] += 1
                    if p["first"] is None:
                        p["first"] = (ev, r["failed"], evs[r["line"] - 1])
    for key in sorted(pending):
        p = pending[key]
        ev, failed, raw = p["first"]
        rp = ck.replay_file("trace-%s.ndjson" % vlib.digest(key), raw + "\n")
        ck.violation(key, "[%d event(s)] %s" % (p["n"], _describe(ev, failed)), rp)
    ck.set("refused_events_by_key", {k: v["n"] for k, v in pending.items()})
    return cnt, hit, sides, lines, ok


# --------------------------------------------------------------------------- gates

def gates(ck, tables, summ, cnt, hit, sides, lines):
    if lines != summ.get("events", -1):
        raise FrameworkError("trace validation covered %d of %d recorded events" % (lines, summ.get("events", -1)))
    if cnt.get("harnessTable"):
        raise FrameworkError("the harness's walk of the exported decision tree disagrees with the table of the spec on %d "
                             "event(s)" % cnt["harnessTable"])
    # (interior pairs only: on exact ties - lattice headings, mirror-symmetric pairs - rounding decides the comparisons)
    reached_excluded = [i for i in EXCLUDED_IDS if i in hit]
    if reached_excluded:
        raise FrameworkError("branch cases listed as unreachable were reached (the exclusion argument is wrong): %s" % reached_excluded)
    need = [i for i in tables["dcase"] if i not in EXCLUDED_IDS] + list(tables["rcase"])
    missing = [i for i in need if i not in hit]
    if missing:
        raise FrameworkError("vacuity gate: branch cases of the model never hit by an interior pair: %s" % missing)
    unstraddled = [n for n in tables["nodes"] if (n + ":-") not in sides or (n + ":+") not in sides]
    if unstraddled:
        raise FrameworkError("vacuity gate: decision nodes not straddled on both sides: %s" % unstraddled)
    rs_pairs = [s[3:-2] for s in sides if s.startswith("rs:")]
    rs_unstraddled = [c for c in tables["rcase"] if not any(c in p.split("|") for p in rs_pairs)]
    if rs_unstraddled:
        raise FrameworkError("vacuity gate: Reeds-Shepp words with no recorded change of word next to them: %s" % rs_unstraddled)
    if len(summ.get("qpos", {})) != tables["qpos"]:
        raise FrameworkError("vacuity gate: %d of %d quadrant position pairs recorded" % (len(summ.get("qpos", {})), tables["qpos"]))
    # every transition of the decision machine lies on the trail of a case that was hit
    hit_trails = [i.split("/") for i in hit if i in tables["dcase"]]
    need_trails = [i.split("/") for i in tables["dcase"] if i not in EXCLUDED_IDS]
    covered = uncovered_ok = 0
    for _src, dst in tables["dedges"]:
        d = json.loads(dst)
        if any(t[:len(d)] == d for t in hit_trails):
            covered += 1
        elif any(t[:len(d)] == d for t in need_trails):
            raise FrameworkError("vacuity gate: transition to %s of DubinsClass not exercised" % d)
        else:
            uncovered_ok += 1   # leads only into cases listed as unreachable
    # integrator cases
    got = set()
    words = {"LSL", "RSR", "RSL", "LSR", "RLR", "LRL"}
    rows = {}
    for c in tables["rcase"].values():
        rows[c["row"]] = c["word"]
    for k in summ.get("icase", {}):
        f = k.split(":")
        if f[0] in ("dub", "sym") and f[1] in words:
            got.add(("dubins", f[1], f[2] == "rev", int(f[3]) + 1))
        elif f[0] == "rs" and int(f[1]) in rows:
            got.add(("rs", rows[int(f[1])], False, int(f[2]) + 1))
    miss_i = sorted(tables["icase"] - got)
    if miss_i:
        raise FrameworkError("vacuity gate: integrator cases (word, reversed, segment t falls into) never sampled: %s" % miss_i)
    for k in ("dubins", "dubinsSym", "rs", "shortest", "symmetric", "order", "prefix", "reversed", "cusps", "interior"):
        if not cnt.get(k):
            raise FrameworkError("vacuity gate: counter '%s' of the trace spec stayed 0" % k)
    ck.set("dubins_transitions_exercised", covered)
    ck.set("dubins_transitions_only_into_excluded_cases", uncovered_ok)
    ck.set("integrator_cases_sampled", len(got & tables["icase"]))


def run(tier):
    ck = Check(PID, tier, "exploration")
    ck.assumptions += ASSUMPTIONS
    tables_path, tables = model_phase(ck)
    binary = build_harness("curves", needs_lib=True, opt="-O2")
    summ, paths = record_phase(ck, binary, tables_path, tier)
    cnt, hit, sides, lines, ok = validate_phase(ck, paths, tier)
    crashed = any(k == "c14:crash" for k in ck.violation_counts) or not ok
    if not crashed:
        try:
            gates(ck, tables, summ, cnt, hit, sides, lines)
        except FrameworkError as ex:
            # a tree that breaks the contract can also make branch cases unreachable (a word that is never chosen
            # any more): the verdict stands, the gate is reported next to it
            if not ck.violations:
                raise
            log("[C14] vacuity gate not met on a tree that violates the contract: %s" % str(ex)[:600])
            ck.set("vacuity_gate_not_met", str(ex)[:600])
    ck.set("evaluations", summ.get("events", 0))
    ck.set("pose_pairs", summ.get("pairs", 0))
    ck.set("distinct_nontrivial", len(hit) + len(sides))
    ck.set("rule", RULE)
    ck.set("branch_cases_hit_interior", len(hit))
    ck.set("decision_node_sides_straddled", len([s for s in sides if not s.startswith("rs:")]))
    ck.set("reeds_shepp_word_changes_straddled", len({s[:-2] for s in sides if s.startswith("rs:")}))
    ck.set("families", summ.get("fam", {}))
    ck.set("trace_counters", cnt)
    ck.set("drift", {"library_word_differs_from_table_word_interior": cnt.get("driftInterior", 0),
                     "library_word_differs_from_table_word_near_boundary": cnt.get("driftBoundary", 0),
                     "integrator": cnt.get("driftIntegrator", 0), "harness_view": summ.get("drift", {})})
    ck.set("tolerances_units_1e-8", TOLERANCES)
    ck.set("max_observed_normalised", {k: float("%.3g" % v[0]) for k, v in sorted(summ.get("stat", {}).items())})
    ck.set("pool_search_tries", {"dubins": summ.get("poolTries", 0), "reeds_shepp": summ.get("rsPoolTries", 0)})
    ck.set("exhaustive", False)
    try:
        evs = []
        with open(paths[0]) as f:
            for line in f:
                e = json.loads(line)
                if e.get("fam") == "boundary" and e.get("bnd") and len(evs) < 1:
                    evs.append(e)
                elif e.get("fam") == "branch-case-rs" and e["sp"] == "rs" and len(evs) == 1:
                    evs.append(e)
                    break
        for e in evs:
            ck.sample({"kind": "recorded observation (fixed point, units 1e-8 rho max(1,d))",
                       "event": {k: e[k] for k in e if k not in ("preLo", "preHi", "isegs", "nz")}})
    except (OSError, ValueError, IndexError):
        pass
    return ck.finish()


def replay(path):
    """trace-*.ndjson: (a) re-validate the recorded event with TLC, (b) re-observe the pose pair named in its `repro`
    field on the real spaces and validate that too."""
    path = os.path.abspath(path)
    rc = 0
    v = _validate(path)
    if v["error"]:
        raise FrameworkError(v["error"])
    if v["verdict"] is None:
        print("REJECTED: trace not accepted\n" + v["tail"])
        return 1
    for r in v["refused"]:
        print("recorded event line %d (%s): clauses refused: %s" % (r["line"], r["sp"], ", ".join(sorted(r["failed"]))))
        rc = 1
    evs = [json.loads(x) for x in open(path).read().splitlines() if x.strip()]
    pairs = [e for e in evs if e.get("e") == "Pair" and e.get("repro")]
    if pairs:
        ck = Check(PID, "quick", "exploration")
        tables_path, _ = model_phase(ck)
        binary = build_harness("curves", needs_lib=True, opt="-O2")
        rp = pairs[0]["repro"]
        nums = rp.replace("from=(", "").replace(") to=(", ",").replace(") rho=", ",").split(",")
        out = os.path.join(WORK, "c14-replay.ndjson")
        r, so, se = _retry([binary, "one", tables_path, out] + nums, timeout=600)
        if r != 0:
            print("re-observation failed (rc=%s): %s" % (r, (so + se)[-800:]))
            return 1
        v2 = _validate(out)
        for r in v2["refused"]:
            print("re-observed pair, space %s: clauses refused: %s" % (r["sp"], ", ".join(sorted(r["failed"]))))
            rc = 1
    print("replay: %s" % ("contract violated" if rc else "accepted"))
    return rc


def selftest():
    """Corrupt single fields of a recorded event and confirm that exactly the expected clause refuses it (and that a
    crash event makes the trace unacceptable)."""
    ck = Check(PID, "quick", "exploration")
    tables_path, _ = model_phase(ck)
    binary = build_harness("curves", needs_lib=True, opt="-O2")
    base = os.path.join(WORK, "c14-selftest-base.ndjson")
    nums = [float.hex(x) for x in (0.0, 0.0, 0.3, 3.0, 2.0, -1.2, 1.0)]
    rc, so, se = _retry([binary, "one", tables_path, base] + nums, timeout=600)
    if rc != 0:
        raise FrameworkError("selftest: cannot record the base pair: " + (so + se)[-800:])
    evs = {json.loads(x)["sp"]: json.loads(x) for x in open(base).read().splitlines()}
    v = _validate(base)
    if v["verdict"] is None or v["refused"]:
        raise FrameworkError("selftest: the uncorrupted base events are not accepted: %s" % v["refused"])
    cases = [("dubins", {"rep": +5000}, "ShortestOfSix"), ("dubins", {"endPos": 10000}, "EndsAtTarget"),
             ("dubins", {"endYaw": 10000}, "EndsAtTarget"), ("dubins", {"cusp": 1}, "ReversalsOnlyForReedsShepp"),
             ("dubins", {"back": 3}, "ReversalsOnlyForReedsShepp"), ("dubins", {"arc": -500}, "ArcLengthIsDistance"),
             ("dubins", {"vres": 1000}, "FollowsVehicleModel"), ("dubinsSym", {"repRev": +500}, "Symmetric"),
             ("dubinsSym", {"sl": +90000000}, "NotShorterThanStraightLine"), ("rs", {"dubF": -90000000}, "ReedsSheppNeverExceedsDubins"),
             ("rs", {"pre3": +5000}, "PrefixOptimal"), ("rs", {"repRev": -500}, "Symmetric"), ("rs", {"wcusp": 3}, "ReversalsOnlyForReedsShepp"),
             ("rs", {"finite": False}, "Finite")]
    bad = 0
    for n, (sp, change, clause) in enumerate(cases):
        e = json.loads(json.dumps(evs[sp]))
        for k, dv in change.items():
            if k == "pre3":
                e["pre"][3] += dv
            elif isinstance(dv, bool):
                e[k] = dv
            elif k in ("endPos", "endYaw", "cusp", "back", "vres", "wcusp"):
                e[k] = dv
            else:
                e[k] += dv
        p = os.path.join(WORK, "c14-selftest-%d.ndjson" % n)
        vlib.write_ndjson(p, [e])
        r = _validate(p)
        failed = set(r["refused"][0]["failed"]) if r["refused"] else set()
        ok = clause in failed
        bad += 0 if ok else 1
        print("selftest %-10s %-28s -> refused %s %s" % (sp, change, sorted(failed), "ok" if ok else "NOT DETECTED"))
    p = os.path.join(WORK, "c14-selftest-crash.ndjson")
    vlib.write_ndjson(p, [evs["dubins"], {"e": "Crash", "what": "SIGSEGV"}])
    r = _validate(p)
    ok = r["verdict"] is None
    bad += 0 if ok else 1
    print("selftest crash event -> %s" % ("trace not accepted ok" if ok else "ACCEPTED"))
    return 1 if bad else 0
