"""C20 for control planners - a fixed seed reproduces single-threaded control planning bit for bit.

control_twice(ck, tier): every control planner variant (RRT with / without intermediate states, SST,
EST, KPIECE1, PDST, SyclopRRT, SyclopEST - all single-threaded) x system (point, car, double
integrator) x problem x evaluation budget x seed is run TWICE, each time in its own fresh process
(`control c20one`: RNG::setSeed first, termination by evaluation count).  The complete outcome of
a run (status and evaluation count of every solve() call, number and FNV hash of every state
handed to the validity checker, bit-exact hash of all path states, controls, durations, flags) is
one observation {"e":"Obs","key":<run identity>,"val":<outcome>}; TLC validates the observations
against specs/base/Determinism.tla (same key => same value), exactly as c20._judge does for the
geometric planners.
"""
import concurrent.futures
import json
import os
import random
import vlib
from vlib import run_cmd, build_harness, FrameworkError, WORK
import c20

PLANNERS = ["RRT", "RRTi", "SST", "EST", "KPIECE1", "PDST", "SyclopRRT", "SyclopEST"]
DIRECTED = {"RRT", "RRTi", "EST", "PDST", "SyclopRRT"}
SYSTEMS = {"point": (250000, 100000), "car": (200000, 125000), "dint": (250000, 100000)}
# obstacle cells (cell = y*4+x), start cell, goal cell, threshold class
PROBLEMS = [([], 0, 15, "normal"), ([5, 6, 9, 10], 0, 15, "normal"), ([1, 5, 9], 0, 3, "normal"),
            ([10, 11, 14], 0, 15, "normal"), ([6], 0, 15, "tiny")]


def _mask(cells):
    m = 0
    for c in cells:
        m |= 1 << c
    return m


def control_twice(ck, tier, binary=None, label="ctrl"):
    """Adds the control-planner half of C20 to the check `ck` (violations, coverage, samples).
    label is handed to c20._judge: violation keys are "<label>:<run key>:<clause>" (with label "planner"
    c20._judge shortens the run key to its first field, "ctrl-<planner>")."""
    binary = binary or build_harness("control", needs_lib=True)
    rng = random.Random(vlib.seed() * 2654435761 + 29)
    nper = 2 if tier == "quick" else 20    # jobs per planner x system
    jobs = []
    for planner in PLANNERS:
        for system, steps in SYSTEMS.items():
            for i in range(nper):
                cells, s, g, thr = rng.choice(PROBLEMS) if i else PROBLEMS[0]
                mn, mx = rng.choice([(1, 1), (1, 10), (3, 7)])
                jobs.append({"planner": planner, "system": system, "obst": _mask(cells), "start": s, "goal": g, "thr": thr,
                             "minD": mn, "maxD": mx, "stepMicro": rng.choice(steps),
                             "dcs": rng.choice([1, 3]) if planner in DIRECTED else 1,
                             # the first job of every planner x system has a budget that bears a solution
                             "budget": rng.choice([1500, 4000]) if i == 0 else rng.choice([0, 5, 60, 300, 1500, 4000]),
                             "seed": rng.randrange(1, 1 << 30), "solves": rng.choice([1, 1, 2])})

    def key_of(j):
        return "ctrl-%s|%s|m%d|%d>%d|%s|d%d..%d|h%d|dcs%d|seed%d|k%d|x%d" % (
            j["planner"], j["system"], j["obst"], j["start"], j["goal"], j["thr"], j["minD"], j["maxD"], j["stepMicro"],
            j["dcs"], j["seed"], j["budget"], j["solves"])

    def one(args):
        j, rep = args
        # (wall-clock limit only as a last resort; the harness has its own CPU-time watchdog)
        rc, out, err = run_cmd([binary, "c20one", json.dumps(j)], timeout=6 * 3600)
        for line in out.splitlines():
            if line.startswith("OBS "):
                return j, rep, json.loads(line[4:]), None
        return j, rep, None, "rc=%s %s" % (rc, (out + err)[-300:])

    obs = []
    work = [(j, r) for j in jobs for r in (1, 2)]
    with concurrent.futures.ThreadPoolExecutor(max_workers=max(2, vlib.NCPU)) as ex:
        for j, rep, o, errtxt in ex.map(one, work):
            key = key_of(j)
            if o is None:
                obs.append({"e": "Hang" if ("HANG" in (errtxt or "") or "rc=71" in (errtxt or "")) else "Crash",
                            "key": key, "what": errtxt})
                continue
            if not o["seedTookEffect"]:
                obs.append({"e": "Obs", "key": "ctrl-seed-set-before-any-generator", "val": "yes"})
                obs.append({"e": "Obs", "key": "ctrl-seed-set-before-any-generator", "val": "no: " + j["planner"]})
            obs.append({"e": "Obs", "key": key, "val": o["val"]})
    tp = os.path.join(WORK, "c20-control-%d.ndjson" % os.getpid())
    vlib.write_ndjson(tp, obs)
    c20._judge(ck, tp, label)
    os.unlink(tp)
    ck.add("traces_validated_against_impl", len(jobs))
    ck.set("control_run_pairs", len(jobs))
    ck.set("control_planner_variants", len(PLANNERS))
    bearing = {}
    for o in obs:
        if o["e"] == "Obs" and ("EXACT" in o["val"] or "APPROX" in o["val"]):
            pl = o["key"].split("|")[0][5:]
            bearing[pl] = bearing.get(pl, 0) + 1
    ck.set("control_runs_with_solution", bearing)
    # runs whose outcome involved random draws: more than the start-state validity query was made
    ck.set("control_runs_nontrivial", sum(1 for o in obs if o["e"] == "Obs" and "/q0/" not in o["val"] and "/q1/" not in o["val"]))
    missing = [p for p in PLANNERS if not bearing.get(p)]
    if missing and not ck.violations:
        raise FrameworkError("vacuity gate (C20 control): no solution-bearing run for %s" % missing)
    ck.sample({"kind": "control planner run observed twice in separate processes",
               "key": obs[0].get("key"), "val": obs[0].get("val")})
    return len(jobs)
