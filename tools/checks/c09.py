"""C09 - copies and persisted data reproduce states and planner graphs exactly.

Three specifications (specs/base):
  StateLayout.tla       shapes of state spaces: signature, serialization layout, value order, common
                        subspaces.  TLC enumerates a bounded family of shapes (and all ordered pairs of a
                        smaller family), checks the layout invariants and prints what each real space must
                        report; harness `storage layout` builds every shape and compares.
  PlannerDataGraph.tla  the planner-data graph as its interface describes it.  TLC checks the invariants,
                        dumps the state graph; harness `storage pdata` replays it on base::PlannerData and
                        control::PlannerData comparing every observer, and at every state of the model
                        stores the graph, loads it back, truncates the archive at every byte, patches the
                        marker and loads it into other spaces.  Random larger histories are recorded
                        (`storage record`) and validated by TLC against PlannerDataGraphTrace.tla.
  Storage.tla           archives as sequences of typed fields with the faults of the property; its dumped
                        scenario table decides every byte-level run of the harness.
"""
import concurrent.futures
import json
import os
import shutil
import vlib
from vlib import Check, run_tlc, run_cmd, build_harness, Graph, validate_trace, FrameworkError, WORK, log

PID = "C09"
ASAN_ENV = {"ASAN_OPTIONS": "detect_leaks=0:abort_on_error=0:exitcode=77"}
# error paths of load() leak what they had allocated (the archive exception leaves loadVertices /
# loadStates before their clean-up); that is not part of the property, so leak detection is off.

# stable keys of defects of the pinned tree (see the report / known_findings.json)
KEY_D3 = "markGoalState-unsorted"
KEY_D8 = "storage-start-and-goal-vertex"
KEY_CLEAR = "clear-keeps-index-map-and-marks"
KEY_XKIND = "wrong-kind-archive-bad-alloc"


def _dir():
    return vlib.ensure_dir(os.path.join(WORK, "cfg-c09"))


def _set(xs):
    return "{%s}" % ", ".join('"%s"' % x for x in xs)


LAYOUT = {
    "quick": dict(KindsA=["RV0", "RV2", "SO2", "SO3", "T", "D02", "SE2"], NodesA=4,
                  KindsB=["RV1", "SO3", "Dm13"], NodesB=5,
                  KindsP=["RV2", "SO2", "D02"], NodesP=4, MaxDepth=3, VarNodes=3),
    "thorough": dict(KindsA=["RV0", "RV2", "RV3", "SO2", "SO3", "T", "D02", "D11", "SE2", "SE3"], NodesA=4,
                     KindsB=["RV1", "SO3", "Dm13", "SE2"], NodesB=5,
                     KindsP=["RV2", "SO2", "D02"], NodesP=5, MaxDepth=4, VarNodes=3),
}


def _layout_cfg(name, tier, pairs):
    c = LAYOUT[tier]
    body = ["INIT %s" % ("InitPairs" if pairs else "InitShapes"), "NEXT Next", "CONSTANTS"]
    for k in ("KindsA", "KindsB", "KindsP"):
        body.append("  %s = %s" % (k, _set(c[k])))
    for k in ("NodesA", "NodesB", "NodesP", "MaxDepth", "VarNodes"):
        body.append("  %s = %d" % (k, c[k]))
    if pairs:
        body.append("INVARIANTS TransferWellDefined CommonIsSymmetric AllMeansAll SignatureDeterminesImage EmitPair")
    else:
        body.append("INVARIANTS LayoutIsPartition ValueOrderCoversAll SignatureWellFormed EmitShape")
    p = os.path.join(_dir(), name + ".cfg")
    open(p, "w").write("\n".join(body) + "\n")
    return p


def _graph_cfg(name, maxv, maxe, marks, tag, dump, sorted_=True):
    body = ["SPECIFICATION Spec", "CONSTANTS", "  MaxV = %d" % maxv, "  MaxE = %d" % maxe, "  MaxMarks = %d" % marks,
            "  AllowTag = %s" % ("TRUE" if tag else "FALSE"), "  SelfLoops = TRUE",
            "  GoalListSorted = %s" % ("TRUE" if sorted_ else "FALSE"), "VIEW View"]
    if dump:
        body.append("ACTION_CONSTRAINT Dump")
    else:
        body += ["INVARIANTS TypeOK IndexMapConsistent StartGoalFlagsExact EdgesWellFormed", "PROPERTY RemovalRenumbers"]
    p = os.path.join(_dir(), name + ".cfg")
    open(p, "w").write("\n".join(body) + "\n")
    return p


def _storage_cfg(name, items, one_type, marker_first, dump):
    body = ["SPECIFICATION Spec", "CONSTANTS", "  MaxItems = %d" % items,
            "  OneTypePerVertex = %s" % ("TRUE" if one_type else "FALSE"),
            "  MarkerCheckedFirst = %s" % ("TRUE" if marker_first else "FALSE")]
    body.append("ACTION_CONSTRAINT Dump" if dump else
                "INVARIANTS RoundTrip FaultsRejected NeverCrashes NeverSilentlyDifferent")
    p = os.path.join(_dir(), name + ".cfg")
    open(p, "w").write("\n".join(body) + "\n")
    return p


def _parse(out, tag):
    res = []
    for line in out.splitlines():
        if line.startswith(tag + " "):
            try:
                res.append(json.loads(line[len(tag) + 1:]))
            except ValueError:
                res.append(line[len(tag) + 1:])
    return res


def _merge(dst, src):
    for k, v in src.items():
        dst[k] = dst.get(k, 0) + v


def _key_for(fail):
    """Stable key of a harness failure: the check / action and the observer, never the data."""
    why = fail.get("why", "")
    head = why.split(": ")[0]
    parts = head.split(":")
    if parts[0] == "pd-roundtrip-start-and-goal":
        return KEY_D8
    if parts[0] == "Clear" or (len(parts) > 1 and parts[0] == "return" and parts[1] == "Clear"):
        return KEY_CLEAR
    sc = fail.get("scenario")
    if isinstance(sc, list):
        acts = [s.get("a") for s in sc]
        # after a clear() that forgets nothing, the next call misbehaves: same defect
        if len(acts) >= 2 and acts[-2] == "Clear" and parts[0] != "Store+Load" and not head.startswith("pd-"):
            return KEY_CLEAR
        if len(parts) > 1 and parts[1] in ("isGoalVertex",) and parts[0] in ("MarkGoal", "AddGoal"):
            return KEY_D3
    return "replay:" + ":".join(parts[:2])


class _Shards:
    """Runs one harness sub-command in K processes (argument positions of r and K given)."""

    def __init__(self, ck, binary, label):
        self.ck, self.binary, self.label = ck, binary, label
        self.summary = {"steps": 0, "scenarios": 0, "failures": 0}
        self.counters, self.table_hits, self.fails = {}, {}, []
        self.crashes = []

    def run(self, make_args, K, timeout=3000):
        def one(r):
            return run_cmd([self.binary] + make_args(r, K), timeout=timeout, env=ASAN_ENV)
        with concurrent.futures.ThreadPoolExecutor(max_workers=K) as ex:
            results = list(ex.map(one, range(K)))
        for r, (rc, out, err) in enumerate(results):
            fw = [l for l in out.splitlines() if l.startswith("FRAMEWORK ")]
            if fw or rc == 3:
                raise FrameworkError("%s shard %d: %s" % (self.label, r, (fw or [out[-800:] + err[-800:]])[0]))
            summ = _parse(out, "SUMMARY")
            if not summ:
                self.crashes.append((r, rc, (out[-1500:] + "\n" + err[-2500:])))
                continue
            s = summ[0]
            for k in ("steps", "scenarios", "failures"):
                self.summary[k] += s.get(k, 0)
            _merge(self.counters, s.get("counters", {}))
            _merge(self.table_hits, s.get("table_hits", {}))
            for extra in ("edges", "states"):
                if extra in s:
                    self.summary[extra] = s[extra]
            self.fails += _parse(out, "FAIL")

    def report(self, replay_src=None):
        ck = self.ck
        for r, rc, text in self.crashes:
            rp = ck.replay_file("crash-%s-%d.txt" % (self.label, r), text)
            ck.violation("crash:" + self.label, "harness crashed / sanitizer abort (rc=%s) while replaying %s: %s"
                         % (rc, self.label, text[-700:]), rp)
        by_key = {}
        for f in self.fails:
            by_key.setdefault(_key_for(f), []).append(f)
        for key, fs in sorted(by_key.items()):
            rp = ck.replay_file("fail-%s-%s.json" % (self.label, vlib.digest(key)),
                                json.dumps({"graph": replay_src, "first": fs[0], "count_in_first_5_per_shard": len(fs)}, indent=1))
            ck.violation(key, "%s: %s (%d failing scenario(s) shown, %d in total across shards)"
                         % (self.label, fs[0].get("why"), len(fs), self.summary["failures"]), rp)
