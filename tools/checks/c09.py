"""C09 - copies and persisted data reproduce states and planner graphs exactly.

Three specifications (specs/base):
  StateLayout.tla       shapes of state spaces: signature, serialization layout, value order, common
                        subspaces.  TLC enumerates a bounded family of shapes (and all ordered pairs of a
                        smaller family), checks the layout invariants and prints what each real space must
                        report; harness `storage layout` builds every shape and compares.
  PlannerDataGraph.tla  the planner-data graph as its interface describes it.  TLC checks the invariants,
                        dumps the state graph; harness `storage pdata` replays it on base::PlannerData and
                        control::PlannerData comparing every observer, and at every state of the model
                        stores the graph, loads it back, truncates the archive at every byte, patches the
                        marker and loads it into other spaces.  Random larger histories are recorded
                        (`storage record`) and validated by TLC against PlannerDataGraphTrace.tla.
  Storage.tla           archives as sequences of typed fields with the faults of the property; its dumped
                        scenario table decides every byte-level run of the harness.
"""
import concurrent.futures
import json
import os
import shutil
import vlib
from vlib import Check, run_tlc, run_cmd, build_harness, Graph, validate_trace, FrameworkError, WORK, log

PID = "C09"
ASAN_ENV = {"ASAN_OPTIONS": "detect_leaks=0:abort_on_error=0:exitcode=77"}
# error paths of load() leak what they had allocated (the archive exception leaves loadVertices /
# loadStates before their clean-up); that is not part of the property, so leak detection is off.

# stable keys of defects of the pinned tree (see the report / known_findings.json)
KEY_D3 = "markGoalState-unsorted"
KEY_D8 = "storage-start-and-goal-vertex"
KEY_CLEAR = "clear-keeps-index-map-and-marks"
KEY_XKIND = "wrong-kind-archive-bad-alloc"
KEY_LOOP = "removeVertex-self-loop-double-delete"


def _dir():
    return vlib.ensure_dir(os.path.join(WORK, "cfg-c09"))


def _set(xs):
    return "{%s}" % ", ".join('"%s"' % x for x in xs)


LAYOUT = {
    "quick": dict(KindsA=["RV0", "RV2", "SO2", "SO3", "T", "D02", "SE2"], NodesA=4,
                  KindsB=["RV1", "SO3", "Dm13"], NodesB=5,
                  KindsP=["RV2", "SO2", "D02"], NodesP=4, MaxDepth=3, VarNodes=3),
    "thorough": dict(KindsA=["RV0", "RV2", "RV3", "SO2", "SO3", "T", "D02", "D11", "SE2", "SE3"], NodesA=4,
                     KindsB=["RV1", "SO3", "Dm13", "SE2"], NodesB=5,
                     KindsP=["RV2", "SO2", "D02"], NodesP=5, MaxDepth=4, VarNodes=3),
}


def _layout_cfg(name, tier, pairs):
    c = LAYOUT[tier]
    body = ["INIT %s" % ("InitPairs" if pairs else "InitShapes"), "NEXT Next", "CONSTANTS"]
    for k in ("KindsA", "KindsB", "KindsP"):
        body.append("  %s = %s" % (k, _set(c[k])))
    for k in ("NodesA", "NodesB", "NodesP", "MaxDepth", "VarNodes"):
        body.append("  %s = %d" % (k, c[k]))
    if pairs:
        body.append("INVARIANTS TransferWellDefined CommonIsSymmetric AllMeansAll SignatureDeterminesImage EmitPair")
    else:
        body.append("INVARIANTS LayoutIsPartition ValueOrderCoversAll SignatureWellFormed EmitShape")
    p = os.path.join(_dir(), name + ".cfg")
    open(p, "w").write("\n".join(body) + "\n")
    return p


def _graph_cfg(name, maxv, maxe, marks, tag, dump, sorted_=True):
    body = ["SPECIFICATION Spec", "CONSTANTS", "  MaxV = %d" % maxv, "  MaxE = %d" % maxe, "  MaxMarks = %d" % marks,
            "  AllowTag = %s" % ("TRUE" if tag else "FALSE"), "  SelfLoops = TRUE",
            "  GoalListSorted = %s" % ("TRUE" if sorted_ else "FALSE"), "VIEW View"]
    if dump:
        body.append("ACTION_CONSTRAINT Dump")
    else:
        body += ["INVARIANTS TypeOK IndexMapConsistent StartGoalFlagsExact EdgesWellFormed", "PROPERTY RemovalRenumbers"]
    p = os.path.join(_dir(), name + ".cfg")
    open(p, "w").write("\n".join(body) + "\n")
    return p


def _storage_cfg(name, items, one_type, marker_first, dump):
    body = ["SPECIFICATION Spec", "CONSTANTS", "  MaxItems = %d" % items,
            "  OneTypePerVertex = %s" % ("TRUE" if one_type else "FALSE"),
            "  MarkerCheckedFirst = %s" % ("TRUE" if marker_first else "FALSE")]
    body.append("ACTION_CONSTRAINT Dump" if dump else
                "INVARIANTS RoundTrip FaultsRejected NeverCrashes NeverSilentlyDifferent")
    p = os.path.join(_dir(), name + ".cfg")
    open(p, "w").write("\n".join(body) + "\n")
    return p


def _parse(out, tag):
    res = []
    for line in out.splitlines():
        if line.startswith(tag + " "):
            try:
                res.append(json.loads(line[len(tag) + 1:]))
            except ValueError:
                res.append(line[len(tag) + 1:])
    return res


def _merge(dst, src):
    for k, v in src.items():
        dst[k] = dst.get(k, 0) + v


def _key_for(fail):
    """Stable key of a harness failure: the check / action and the observer, never the data."""
    why = fail.get("why", "")
    head = why.split(": ")[0]
    parts = head.split(":")
    if parts[0] == "pd-roundtrip-start-and-goal":
        return KEY_D8
    if parts[0] == "crash" and len(parts) > 1 and parts[1] == "RemoveVertex-self-loop":
        return KEY_LOOP
    if parts[0] == "Clear" or (len(parts) > 1 and parts[0] == "return" and parts[1] == "Clear"):
        return KEY_CLEAR
    sc = fail.get("scenario")
    if isinstance(sc, list):
        acts = [s.get("a") for s in sc]
        # after a clear() that forgets nothing, the next call misbehaves: same defect
        if len(acts) >= 2 and acts[-2] == "Clear" and parts[0] != "Store+Load" and not head.startswith("pd-"):
            return KEY_CLEAR
        if len(parts) > 1 and parts[1] in ("isGoalVertex",) and parts[0] in ("MarkGoal", "AddGoal"):
            return KEY_D3
    return "replay:" + ":".join(parts[:2])


class _Shards:
    """Runs one harness sub-command in K processes (argument positions of r and K given)."""

    def __init__(self, ck, binary, label):
        self.ck, self.binary, self.label = ck, binary, label
        self.summary = {"steps": 0, "scenarios": 0, "failures": 0}
        self.counters, self.table_hits, self.fails = {}, {}, []
        self.crashes = []

    def run(self, make_args, K, timeout=3000):
        import time
        t0 = time.time()

        def one(r):
            return run_cmd([self.binary] + make_args(r, K), timeout=timeout, env=ASAN_ENV)
        with concurrent.futures.ThreadPoolExecutor(max_workers=K) as ex:
            results = list(ex.map(one, range(K)))
        log("[C09] %s: %d shard(s) in %.1fs" % (self.label, K, time.time() - t0))
        for r, (rc, out, err) in enumerate(results):
            fw = [l for l in out.splitlines() if l.startswith("FRAMEWORK ")]
            if fw or rc == 3:
                raise FrameworkError("%s shard %d: %s" % (self.label, r, (fw or [out[-800:] + err[-800:]])[0]))
            summ = _parse(out, "SUMMARY")
            if not summ:
                self.crashes.append((r, rc, (out[-1500:] + "\n" + err[-2500:])))
                continue
            s = summ[0]
            for k in ("steps", "scenarios", "failures"):
                self.summary[k] += s.get(k, 0)
            _merge(self.counters, s.get("counters", {}))
            _merge(self.table_hits, s.get("table_hits", {}))
            for extra in ("edges", "states"):
                if extra in s:
                    self.summary[extra] = s[extra]
            self.fails += _parse(out, "FAIL")

    def report(self, replay_src=None):
        ck = self.ck
        for r, rc, text in self.crashes:
            rp = ck.replay_file("crash-%s-%d.txt" % (self.label, r), text)
            ck.violation("crash:" + self.label, "harness crashed / sanitizer abort (rc=%s) while replaying %s: %s"
                         % (rc, self.label, text[-700:]), rp)
        by_key = {}
        for f in self.fails:
            by_key.setdefault(_key_for(f), []).append(f)
        for key, fs in sorted(by_key.items()):
            rp = ck.replay_file("fail-%s-%s.json" % (self.label, vlib.digest(key)),
                                json.dumps({"graph": replay_src, "first": fs[0], "count_in_first_5_per_shard": len(fs)}, indent=1))
            ck.violation(key, "%s: %s (%d failing scenario(s) shown, %d in total across shards)"
                         % (self.label, fs[0].get("why"), len(fs), self.summary["failures"]), rp)


GRAPHS = {
    # name: (MaxV, MaxE, MaxMarks, AllowTag, SelfLoops)
    "quick": {"edges": (3, 2, 2, False, False), "marks": (4, 0, 3, False, False), "tags-loops": (2, 2, 1, True, True)},
    "thorough": {"edges": (3, 3, 3, False, False), "marks": (4, 0, 8, False, False), "tags-loops": (3, 1, 1, True, True)},
}
GRAPH_MC = {
    "quick": {"mc-4x1": (4, 1, 2, False, True), "mc-3x2t": (3, 2, 2, True, True)},
    "thorough": {"mc-4x2": (4, 2, 2, False, True), "mc-3x3t": (3, 3, 3, True, True)},
}
PD_SHAPES = ["RV2", "RV2b1_2", "SE2[RV2:2,SO2:1]", "C[RV2:2,D0_2:4,SO3:6]", "C[RV2:2,D0_2:4]", "C[RV2:7,D0_2:7]",
             "W[SE2[RV2:2,SO2:1]]"]
TRACE_SHAPE = "C[RV2:2,D0_2:4,SO3:6]"


def _graph_cfg2(name, spec, dump, sorted_=True):
    maxv, maxe, marks, tag, loops = spec
    p = _graph_cfg(name, maxv, maxe, marks, tag, dump, sorted_)
    s = open(p).read().replace("SelfLoops = TRUE", "SelfLoops = %s" % ("TRUE" if loops else "FALSE"))
    open(p, "w").write(s)
    return p


class _RenumberCount:
    """Vacuity of the removal clause, measured on the dumped transitions themselves."""

    def __init__(self):
        self.c = {"remove_with_start_above": 0, "remove_with_goal_above": 0, "remove_with_edge_above": 0,
                  "remove_of_marked_vertex": 0, "remove_with_incident_edge": 0}

    def see(self, row):
        if row.get("act") != "RemoveVertex":
            return
        g = row["src"][0]
        v = row["args"]["v"] + 1
        if any(k > v for k in g["starts"]):
            self.c["remove_with_start_above"] += 1
        if any(k > v for k in g["goals"]):
            self.c["remove_with_goal_above"] += 1
        if any((e["i"] > v or e["j"] > v) and e["i"] != v and e["j"] != v for e in g["edges"]):
            self.c["remove_with_edge_above"] += 1
        if v in g["starts"] or v in g["goals"]:
            self.c["remove_of_marked_vertex"] += 1
        if any(e["i"] == v or e["j"] == v for e in g["edges"]):
            self.c["remove_with_incident_edge"] += 1


def _tlc_jobs(tier):
    """All TLC runs of the tier, started 0.8 s apart so that they overlap."""
    import time
    jobs = {}
    ex = concurrent.futures.ThreadPoolExecutor(max_workers=16)

    def submit(name, *a, **kw):
        jobs[name] = ex.submit(run_tlc, *a, **kw)
        time.sleep(0.8)

    files = {}

    def sink_to(path):
        f = open(path, "w")
        files[path] = f
        return lambda o: f.write(json.dumps(o, separators=(",", ":")) + "\n")

    shapes = os.path.join(WORK, "c09-shapes-%s.ndjson" % tier)
    pairs = os.path.join(WORK, "c09-pairs-%s.ndjson" % tier)
    table = os.path.join(WORK, "c09-table-%s.ndjson" % tier)
    submit("pairs", "base/StateLayout", cfg=_layout_cfg("pairs-" + tier, tier, True), workers=1, timeout=2400,
           json_sink=sink_to(pairs))
    submit("shapes", "base/StateLayout", cfg=_layout_cfg("shapes-" + tier, tier, False), workers=1, timeout=2400,
           json_sink=sink_to(shapes))
    graphs = {}
    ren = _RenumberCount()
    for name, spec in GRAPHS[tier].items():
        rows = []
        graphs[name] = rows

        def sink(o, rows=rows):
            ren.see(o)
            rows.append(o)
        submit("dump-" + name, "base/PlannerDataGraph", cfg=_graph_cfg2("g-dump-%s-%s" % (name, tier), spec, True),
               workers=1, timeout=2400, json_sink=sink, heap="12g")
    for name, spec in GRAPH_MC[tier].items():
        submit(name, "base/PlannerDataGraph", cfg=_graph_cfg2("g-%s" % name, spec, False), workers=max(2, vlib.NCPU // 2),
               timeout=2400)
    items = 2 if tier == "quick" else 3
    submit("storage-table", "base/Storage", cfg=_storage_cfg("st-dump-" + tier, items, False, True, True), workers=1,
           timeout=900, json_sink=sink_to(table))
    submit("storage-contract", "base/Storage", cfg=_storage_cfg("st-contract-" + tier, items, False, True, False),
           workers=2, timeout=900)
    # the implementation's design choices, shown to break the contract by TLC itself (informative)
    submit("storage-one-type-per-vertex", "base/Storage", cfg=_storage_cfg("st-d8", 2, True, True, False), workers=1, timeout=600)
    submit("storage-marker-checked-last", "base/Storage", cfg=_storage_cfg("st-foreign", 2, False, False, False), workers=1,
           timeout=600)
    submit("graph-goal-list-unsorted", "base/PlannerDataGraph",
           cfg=_graph_cfg2("g-d3", (3, 1, 2, False, False), False, sorted_=False), workers=1, timeout=600)
    res = {k: f.result() for k, f in jobs.items()}
    ex.shutdown()
    log("[C09] TLC: " + ", ".join("%s %.0fs" % (k, r.wall) for k, r in res.items()))
    for f in files.values():
        f.close()
    return res, dict(shapes=shapes, pairs=pairs, table=table), graphs, ren


def _only_both_lost(orig, obs):
    """The loaded table differs from the stored one exactly by the goal marks of start-and-goal vertices."""
    if not orig or not obs:
        return False
    both = [v for v in orig["goals"] if v in orig["starts"]]
    want = dict(orig)
    want["goals"] = [v for v in orig["goals"] if v not in orig["starts"]]
    want["gl"] = sorted(want["goals"])
    got = dict(obs)
    got["gl"] = sorted(obs["gl"])
    norm = lambda t: {k: (sorted(v) if isinstance(v, list) and k != "verts" else v) for k, v in t.items()}
    return bool(both) and norm(want) == norm(got)


def run(tier):
    ck = Check(PID, tier, "model_checking")
    ck.assumptions += [
        "same space = same signature (type and dimension tree); bounds and weights are not part of the archive check",
        "state spaces are identified by their names; names are unique within a space and equal names mean equal subtrees",
        "WrapperStateSpace is used at the root only (it hides getName/getType non-virtually)",
        "a discrete component is not part of the vector of reals, so the reals round trip restores the doubles only",
        "leaf encodings are memcpy and are observed, not modelled; Boost's archive preamble is one opaque field",
        "leaks on the error paths of load() are outside the property (leak detection off)",
    ]
    binary = build_harness("storage", needs_lib=True, san=None)
    res, files, graphs, ren = _tlc_jobs(tier)

    # ---- model checking results
    informative = {"storage-one-type-per-vertex": "RoundTrip", "storage-marker-checked-last": "FaultsRejected",
                   "graph-goal-list-unsorted": "StartGoalFlagsExact"}
    for name, r in res.items():
        ck.tlc(r, name)
        if name in informative:
            # these configurations transcribe a design choice of the implementation; TLC must show the
            # contract clause it breaks (the verdict on the code comes from the replay)
            if r.violated != informative[name]:
                raise FrameworkError("%s: expected TLC to show %s violated, got %s" % (name, informative[name], r.violated))
            ck.set("model_shows_" + name.replace("-", "_"), "violates " + r.violated)
        elif r.violated:
            rp = ck.replay_file("tlc-%s.txt" % name, r.out[-6000:])
            ck.violation("model:" + name + ":" + r.violated, "TLC: %s violated in %s" % (r.violated, name), rp)
    nshapes = sum(1 for _ in open(files["shapes"]))
    npairs = sum(1 for _ in open(files["pairs"]))
    ck.set("shapes_enumerated", nshapes)
    ck.set("pairs_enumerated", npairs)
    table_keys = set()
    for row in vlib.read_ndjson(files["table"]):
        table_keys.add("%s|%s|%s|%s|%s" % (row["kind"], row["fault"], row["field"], "mid" if row["partial"] else "start",
                                          "same" if row["samesig"] else "diff"))
    if nshapes < 100 or npairs < 500 or len(table_keys) < 40:
        raise FrameworkError("enumeration too small: %d shapes, %d pairs, %d fault scenarios" % (nshapes, npairs, len(table_keys)))
    ids = set(json.loads(l)["id"] for l in open(files["shapes"]))
    missing = [s for s in PD_SHAPES + [TRACE_SHAPE] if s not in ids]
    if missing:
        raise FrameworkError("planner-data shapes not in the enumeration: %s" % missing)

    K = vlib.NCPU
    counters, hits = {}, {}
    # ---- layout, partial copies, StateStorage
    sh = _Shards(ck, binary, "layout")
    sh.run(lambda r, k: ["layout", files["shapes"], files["pairs"], files["table"], str(r), str(k),
                         "1" if tier == "thorough" or nshapes <= 2500 else "0"], K)
    sh.report()
    ck.add("traces_validated_against_impl", sh.summary["scenarios"] - sh.summary["failures"])
    _merge(counters, sh.counters)
    _merge(hits, sh.table_hits)
    ck.sample({"kind": "layout replay", "shapes": sh.counters.get("shapes_replayed", 0),
               "pairs": sh.counters.get("pairs_copied", 0), "state_storage_truncations": sh.counters.get("ss_truncations", 0)})
    # ---- planner data graphs
    for name, rows in graphs.items():
        g = Graph(rows)
        g.check_connected()
        gpath = g.write(os.path.join(WORK, "c09-graph-%s-%s.ndjson" % (name, tier)))
        acts = {}
        for e in g.edges:
            acts[e["a"]] = acts.get(e["a"], 0) + 1
        ck.set("edges_per_action_" + name, acts)
        mode = "pairs" if (tier == "thorough" or name != "edges") else "edges"
        walks = 40 if tier == "quick" else 400
        sp = _Shards(ck, binary, "pdata-" + name)
        sp.run(lambda r, k: ["pdata", gpath, files["shapes"], files["table"], str(r), str(k), mode, str(walks)] + PD_SHAPES, K)
        sp.report(replay_src=gpath)
        ck.add("traces_validated_against_impl", sp.summary["scenarios"] - sp.summary["failures"])
        ck.add("replayed_steps", sp.summary["steps"])
        _merge(counters, sp.counters)
        _merge(hits, sp.table_hits)
        ck.sample({"kind": "planner-data graph replayed", "config": name, "states": len(g.ids), "edges": len(g.edges),
                   "archives": sp.counters.get("archives_base", 0) + sp.counters.get("archives_control", 0),
                   "truncations": sp.counters.get("pd_truncations", 0)})
    # ---- archives of another kind
    sx = _Shards(ck, binary, "xkind")
    sx.run(lambda r, k: ["xkind", files["shapes"], files["table"], "RV2"], 1)
    for f in sx.fails:
        f["why"] = f.get("why", "")
    by = {}
    for f in sx.fails:
        by.setdefault(KEY_XKIND if f["why"].startswith("xkind-crash") else "replay:" + f["why"].split(":")[0], []).append(f)
    for key, fs in sorted(by.items()):
        rp = ck.replay_file("fail-xkind-%s.json" % vlib.digest(key), json.dumps({"first": fs[0], "all": fs}, indent=1))
        ck.violation(key, "foreign archive: %s (%d of 6 archive/loader combinations)" % (fs[0]["why"], len(fs)), rp)
    for r_, rc, text in sx.crashes:
        rp = ck.replay_file("crash-xkind.txt", text)
        ck.violation("crash:xkind", "harness crashed in the foreign-archive scenarios: " + text[-500:], rp)
    ck.add("traces_validated_against_impl", sx.summary["scenarios"] - sx.summary["failures"])
    _merge(counters, sx.counters)
    _merge(hits, sx.table_hits)

    # ---- recorded random histories over larger graphs, validated by TLC
    execs, ops = (24, 120) if tier == "quick" else (120, 200)
    for i in range(1 if tier == "quick" else 3):
        tpath = os.path.join(WORK, "c09-trace-%s-%d.ndjson" % (tier, i))
        rc, out, err = run_cmd([binary, "record", tpath, files["shapes"], TRACE_SHAPE, str(execs), str(ops)], timeout=900,
                               env={"VERIF_SEED": str(vlib.seed() * 31 + i)})
        if rc != 0:
            rp = ck.replay_file("trace-%d.ndjson" % i)
            if os.path.exists(tpath):
                shutil.copyfile(tpath, rp)
            ck.violation("record-crash", "planner data crashed under a random history: " + (out + err)[-600:], rp)
            continue
        acc, prefix, r = validate_trace("base/PlannerDataGraphTrace", tpath, timeout=1800)
        evs = vlib.read_ndjson(tpath)
        ck.add("trace_events", len(evs))
        if not acc:
            bad = evs[prefix] if prefix < len(evs) else {}
            rp = ck.replay_file("trace-%d.ndjson" % i)
            shutil.copyfile(tpath, rp)
            if prefix == len(evs) - 1 and bad.get("e") == "RoundTrip" and bad.get("both") == 1 and bad.get("ret") == 1 \
                    and _only_both_lost(bad.get("orig"), bad.get("obs")):
                # everything before the deliberately last line was accepted
                ck.violation(KEY_D8, "recorded execution: a vertex marked start and goal came back from store/load as "
                                     "start only (last line of the trace): %s" % json.dumps(bad)[:300], rp)
                ck.add("traces_validated_against_impl", execs - 1)
            else:
                ck.violation("trace:" + str(bad.get("e")), "recorded planner-data execution rejected by PlannerDataGraph at "
                             "line %d of %d: %s" % (prefix + 1, len(evs), json.dumps(bad)[:400]), rp)
        else:
            ck.add("traces_validated_against_impl", execs)
            if i == 0:
                ck.sample({"kind": "recorded trace excerpt", "events": evs[1:3]})

    # ---- vacuity gates
    ck.set("counters", dict(sorted(counters.items())))
    ck.set("removal_vacuity", ren.c)
    ck.set("fault_scenarios_in_table", len(table_keys))
    ck.set("fault_scenarios_replayed", len(set(hits) & table_keys))
    ck.set("truncation_offsets_tried", counters.get("ss_truncations", 0) + counters.get("pd_truncations", 0))
    if not ck.violations:   # a crashed shard already is a verdict; a known finding removes no coverage
        need = ["shapes_replayed", "shapes_zero_length", "shapes_wrapped", "pairs_ret0", "pairs_ret1", "pairs_ret2",
                "pairs_with_transfer", "ss_same_signature_accepted", "ss_other_signature_rejected",
                "pd_same_signature_accepted", "pd_other_signature_rejected", "pd_other_control_signature_rejected",
                "archives_with_start_and_goal_vertex", "act_RemoveVertex", "act_Clear", "act_Tag", "act_MarkGoal",
                "foreign_archives_rejected"]
        need += ["ss_trunc_%s_%s" % (f, p) for f in ("hdr", "marker", "counts", "sig", "item1") for p in ("start", "mid")]
        need += ["%s_trunc_%s_%s" % (k, f, p) for k in ("PD", "PDC") for f in ("hdr", "marker", "counts", "sig", "item1", "item2")
                 for p in ("start", "mid")]
        zero = [k for k in need if not counters.get(k)]
        zero += [k for k, v in ren.c.items() if not v]
        zero += sorted(table_keys - set(hits))
        if zero:
            raise FrameworkError("vacuity gate: never exercised: %s" % zero)
    return ck.finish()


def replay(path):
    """Re-execute a replay artefact: a recorded trace is re-validated; a failing scenario is shown and the
    graph / layout it came from is replayed again."""
    if path.endswith(".ndjson"):
        acc, prefix, res = validate_trace("base/PlannerDataGraphTrace", path)
        print("accepted" if acc else "REJECTED at line %d" % (prefix + 1))
        return 0 if acc else 1
    print(open(path).read()[:6000])
    if not path.endswith(".json"):
        return 1
    art = json.load(open(path))
    binary = build_harness("storage", needs_lib=True, san=None)
    tier = "thorough" if "thorough" in str(art.get("graph")) else "quick"
    files = {k: os.path.join(WORK, "c09-%s-%s.ndjson" % (k, tier)) for k in ("shapes", "pairs", "table")}
    if not all(os.path.exists(p) for p in files.values()):
        print("run ./check C09 first: the enumerations are regenerated by the check")
        return 1
    if art.get("graph") and os.path.exists(art["graph"]):
        args = ["pdata", art["graph"], files["shapes"], files["table"], "0", "1", "edges", "0"] + PD_SHAPES
    elif "archive" in json.dumps(art.get("first", {}).get("scenario", {})):
        args = ["xkind", files["shapes"], files["table"], "RV2"]
    else:
        args = ["layout", files["shapes"], files["pairs"], files["table"], "0", "1", "0"]
    rc, out, err = run_cmd([binary] + args, timeout=3000, env=ASAN_ENV)
    fails = _parse(out, "FAIL")
    for f in fails[:5]:
        print("FAIL", json.dumps(f)[:1500])
    print((_parse(out, "SUMMARY") or [out[-1500:] + err[-1500:]])[0] if not fails else "%d failure line(s)" % len(fails))
    return 1 if fails or rc else 0
