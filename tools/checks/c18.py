"""C18 - termination conditions mean exactly what they say.

1. base/PTC.tla: condition terms (Pred, Always, Never, Iter(n), Or, And, ExactSoln) with one
   terminate flag and one iteration counter per implementation object; TLC checks the
   operational evaluation (C++ order, short-circuit) against the declarative contract.
   The explored state graph is replayed on terms built from the real factory functions
   (every eval() result and every predicate invocation count compared); random histories
   recorded from real terms of the whole depth <= 2 universe are validated by TLC
   (base/PTCTrace.tla).
2. base/PTCPeriodic.tla: the period > 0 form as evaluator thread + caller + Destroy over a
   discrete clock, timed conditions; safety and liveness (weak fairness).
3. base/CostConvergence.tla: processNewSolution with exact rationals; every cost sequence is
   replayed through the real problem-definition callback.
4. base/PTCTimedTrace.tla: traces of the real timed / periodic conditions with millisecond
   timestamps, judged by one-sided facts only.
"""
import json
import os
import random
import re
import shutil
import vlib
from vlib import Check, run_tlc, run_cmd, build_harness, Graph, validate_trace, FrameworkError, WORK, log

PID = "C18"
PROPS = "TerminateSticky OrAndTruth Constants IterThreshold ExactMirrors PredDirect"
D1_IDS = list(range(136)) + list(range(50001, 50007))     # all terms of depth <= 1 + shared-operand graphs
ACTIONS = {"Choose", "FlipPred", "AddSol", "ClearSol", "Eval", "Terminate"}


def _d2_universe():
    out = []
    for op in range(2):
        for x in range(136):
            for y in range(136):
                if x >= 8 or y >= 8:
                    out.append(136 + op * 136 * 136 + x * 136 + y)
    return out


_LEAF = ["pred", "pred", "always", "never", "iter", "iter", "iter", "exact"]


def _node_kind(t, n):
    """Kind of node n of an encoded tree term (mirror of PTC!TreeTab), for violation keys only."""
    try:
        if t >= 50000:
            return "shared"

        def head(c):
            return _LEAF[c] if c < 8 else ("or", "and")[(c - 8) // 64]

        def kids(c):
            return [((c - 8) % 64) // 8, (c - 8) % 8] if c >= 8 else [None, None]
        if t < 136:
            tab = [t] + kids(t)
        else:
            u = t - 136
            x, y = (u % (136 * 136)) // 136, u % 136
            tab = [8 + 64 * (u // (136 * 136)), x, y] + kids(x) + kids(y)
            if n == 1:
                return ("or", "and")[u // (136 * 136)]
        c = tab[n - 1]
        return head(c) if c is not None else "none"
    except Exception:
        return "unknown"


def _cfgdir():
    return vlib.ensure_dir(os.path.join(WORK, "cfg-c18"))


def _ptc_cfg(name, ids, maxterm, cap, maxlen, dump):
    p = os.path.join(_cfgdir(), name + ".cfg")
    body = ["SPECIFICATION Spec", "CONSTANTS",
            "  TermIds <- AllDepth2" if ids == "ALL-D2" else "  TermIds = {%s}" % ", ".join(map(str, ids)),
            "  MaxTerm = %d" % maxterm, "  CntCap = %d" % cap, "  MaxLen = %d" % maxlen, "VIEW View"]
    # the dump runs explore the same graph as a plain model-checking run: check the properties there too
    body += ["INVARIANT TypeOK", "PROPERTIES " + PROPS]
    if dump:
        body.append("ACTION_CONSTRAINT Dump")
    open(p, "w").write("\n".join(body) + "\n")
    return p


def _periodic_cfg(name, periods, durations):
    p = os.path.join(_cfgdir(), name + ".cfg")
    open(p, "w").write("\n".join([
        "SPECIFICATION FairSpec", "CONSTANTS",
        "  Periods = {%s}" % ", ".join(map(str, periods)),
        "  Durations = {%s}" % ", ".join(map(str, durations)),
        '  Variant = "code"',
        "INVARIANTS TypeOK NoPredicateCallOnCallerThread ThreadRunsUntilAsked",
        "PROPERTIES DirectExact LagBound TerminateSticky FalseBefore TrueAfter NeverReverts ThreadStops JoinReturns"]) + "\n")
    return p


def _cc_cfg(name, costs, windows, epsdens, maxlen):
    p = os.path.join(_cfgdir(), name + ".cfg")
    open(p, "w").write("\n".join([
        "SPECIFICATION Spec", "CONSTANTS",
        "  Costs = {%s}" % ", ".join(map(str, costs)),
        "  Windows = {%s}" % ", ".join(map(str, windows)),
        "  EpsDens = {%s}" % ", ".join(map(str, epsdens)),
        "  MaxLen = %d" % maxlen,
        "INVARIANTS FiresExactlyAt MeanWhileFilling Emit"]) + "\n")
    return p


def _parse(out, tag):
    for line in out.splitlines():
        if line.startswith(tag + " "):
            return json.loads(line[len(tag) + 1:])
    return None


def _model(ck, res, name):
    """A property violated inside the specification itself means the specification is broken
    (it does not read the code): never a verdict on the repository."""
    log("[C18] %s: %d states, %d transitions, %.1fs" % (name, res.distinct, res.generated, res.wall))
    ck.tlc(res, name)
    if res.violated:
        raise FrameworkError("specification %s violates its own property %s:\n%s" % (name, res.violated, res.out[-2500:]))


def _hrun(cmd, **kw):
    """Run the harness.  libompl.so in the shared work directory may be re-linked by another check's
    build at any moment; a binary started in that window fails to load it (exit 127).  Wait for the
    build to finish (its lock) and start again."""
    import time
    for attempt in range(4):
        rc, out, err = run_cmd(cmd, **kw)
        if rc == 127 or "error while loading shared libraries" in err or "file too short" in err:
            log("[C18] harness could not load libompl (being re-linked?); waiting for the build lock")
            time.sleep(2 + 3 * attempt)
            try:
                with vlib._Lock("build-plain"):
                    pass
            except Exception:
                pass
            continue
        return rc, out, err
    return rc, out, err


def _crashed(rc, out):
    return "CRASH" in out or rc in (70, 77, 78) or (rc is not None and rc < 0 and rc != -999)


def _cat(why):
    m = re.match(r"\[([^\]]+)\]", why or "")
    return m.group(1) if m else "unclassified"


# ----------------------------------------------------------------------------- graph replay

def _mini_graph(g, scenario):
    """The failing scenario as a linear graph (with the expectations of the specification), so
    that `check C18 --replay` re-executes exactly it."""
    out_edges = {}
    for e in g.edges:
        out_edges.setdefault(e["s"], []).append(e)
    rows, s = [], g.root
    for i, st in enumerate(scenario):
        nxt = None
        for e in out_edges.get(s, []):
            if e["a"] == st["a"] and e["args"] == st["args"]:
                nxt = e
                break
        if nxt is None:
            break
        rows.append({"s": i, "d": i + 1, "a": nxt["a"], "args": nxt["args"], "exp": nxt["exp"]})
        s = nxt["d"]
    return "\n".join(json.dumps(r, separators=(",", ":")) for r in rows) + "\n"


def _dump_and_replay(ck, binary, name, ids, maxterm, mode, walks):
    edges = []
    res = run_tlc("base/PTC", cfg=_ptc_cfg(name, ids, maxterm, 3, 0, True), workers=1, timeout=3000,
                  json_sink=edges.append)
    _model(ck, res, name)
    g = Graph(edges)
    g.check_connected()
    gpath = g.write(os.path.join(WORK, "c18-%s.ndjson" % name))
    acts, ev_true, ev_false, ev_calls, shortcut = {}, 0, 0, 0, 0
    for e in g.edges:
        acts[e["a"]] = acts.get(e["a"], 0) + 1
        if e["a"] == "Eval":
            if e["exp"]["r"]:
                ev_true += 1
            else:
                ev_false += 1
            if sum(e["exp"]["calls"]) > 0:
                ev_calls += 1
    if ACTIONS - set(acts) or not (ev_true and ev_false and ev_calls):
        raise FrameworkError("vacuity gate (%s): actions %s never taken / eval results true=%d false=%d calls=%d"
                             % (name, sorted(ACTIONS - set(acts)), ev_true, ev_false, ev_calls))
    ck.set("edges_per_action_" + name, acts)
    rc, out, err = _hrun([binary, "replay", gpath, mode, str(walks)], timeout=3000)
    summ = _parse(out, "SUMMARY")
    if summ is None:
        if _crashed(rc, out):
            rp = ck.replay_file("graph-%s.ndjson" % name)
            shutil.copyfile(gpath, rp)
            ck.violation("crash:replay", "ptc harness crashed / sanitizer abort while replaying specification "
                         "scenarios: " + (err or out)[-600:], rp)
            return
        raise FrameworkError("ptc replay produced no summary (rc=%s): %s" % (rc, (out + err)[-2000:]))
    ck.add("traces_validated_against_impl", summ["scenarios"])
    ck.add("replayed_steps", summ["steps"])
    ck.add("replayed_evals", summ["evalTrue"] + summ["evalFalse"])
    ck.add("sticky_checks", summ["stickyChecks"])
    if ACTIONS - set(k for k, v in summ["taken"].items() if v > 0) or not summ["evalTrue"] or not summ["evalFalse"]:
        raise FrameworkError("vacuity gate (%s): the replay never executed some action: %s" % (name, summ["taken"]))
    if summ["failures"]:
        first = _parse(out, "FAIL")
        rp = ck.replay_file("graph-%s-scenario.ndjson" % name, _mini_graph(g, first["scenario"]))
        ops = ["%s%s" % (s["a"], json.dumps(s["args"], sort_keys=True) if s["a"] != "Choose" else "(t=%d)" % s["args"]["t"])
               for s in first["scenario"]]
        ck.violation("replay:" + _cat(first["why"]),
                     "%d of %d specification scenarios fail on the real termination conditions; first: %s; scenario: %s"
                     % (summ["failures"], summ["scenarios"], first["why"], " ".join(ops)), rp)
    else:
        ck.sample({"kind": "replayed state graph", "config": name, "terms": len(ids), "edges": summ["edges"],
                   "states": summ["states"], "scenarios": summ["scenarios"]})


# ----------------------------------------------------------------------------- recorded histories

def _validate_hist(args):
    path = args
    acc, prefix, res = validate_trace("base/PTCTrace", path, timeout=3000, heap="3g")
    return acc, prefix, res.distinct, res.generated


def _histories(ck, binary, tier):
    jobs = []
    if tier == "quick":
        jobs.append(("sample", 900, 12, vlib.seed()))
    else:
        # every term of the universe once (4 slices validated in parallel) + a random sample
        jobs.append(("all", 0, 10, vlib.seed()))
        jobs.append(("sample", 6000, 16, vlib.seed() + 1000))
    paths = []
    for i, (mode, n, ln, sd) in enumerate(jobs):
        tpath = os.path.join(WORK, "c18-hist-%d.ndjson" % i)
        rc, out, err = _hrun([binary, "record", tpath, mode, str(n), str(ln)], timeout=1200,
                               env={"VERIF_SEED": str(sd)})
        info = _parse(out, "RECORDED")
        if rc != 0 or info is None:
            if _crashed(rc, out):
                rp = ck.replay_file("trace-ptc-crash-%d.ndjson" % i)
                if os.path.exists(tpath):
                    shutil.copyfile(tpath, rp)
                ck.violation("crash:record", "ptc harness crashed / sanitizer abort under a random history: "
                             + (err or out)[-600:], rp)
                continue
            raise FrameworkError("ptc record failed (rc=%s): %s" % (rc, (out + err)[-2000:]))
        if not info["evals"] or not info["true"] or info["true"] == info["evals"]:
            raise FrameworkError("vacuity gate: recorded histories have no true / no false evaluation: %s" % info)
        ck.add("history_events", info["events"])
        ck.add("history_evals", info["evals"])
        # split into slices at Reset lines so that several TLC instances can work in parallel
        rows = open(tpath).read().splitlines()
        nsl = 1 if len(rows) < 60000 else 6
        cuts = [0]
        for k in range(1, nsl):
            j = len(rows) * k // nsl
            while j < len(rows) and '"Reset"' not in rows[j]:
                j += 1
            cuts.append(j)
        cuts.append(len(rows))
        for k in range(nsl):
            if cuts[k] >= cuts[k + 1]:
                continue
            sp = os.path.join(WORK, "c18-hist-%d-%d.ndjson" % (i, k))
            open(sp, "w").write("\n".join(rows[cuts[k]:cuts[k + 1]]) + "\n")
            paths.append((sp, info["histories"] // nsl))
    if not paths:
        return
    if len(paths) == 1:
        results = [_validate_hist(paths[0][0])]
    else:
        import concurrent.futures
        with concurrent.futures.ProcessPoolExecutor(max_workers=min(6, len(paths))) as ex:
            results = list(ex.map(_validate_hist, [p for p, _ in paths]))
    for (sp, nh), (acc, prefix, distinct, generated) in zip(paths, results):
        ck.add("states", distinct)
        ck.add("transitions", generated)
        if acc:
            ck.add("traces_validated_against_impl", nh)
            ck.add("histories_validated", nh)
        else:
            evs = vlib.read_ndjson(sp)
            bad = evs[prefix] if prefix < len(evs) else {}
            # cut the offending history out of the file
            a = prefix
            while a > 0 and evs[a].get("e") != "Reset":
                a -= 1
            rp = ck.replay_file("trace-ptc-%s" % os.path.basename(sp))
            vlib.write_ndjson(rp, evs[a:prefix + 1])
            term = next((e.get("t") for e in evs[a:prefix + 1] if e.get("e") == "Choose"), None)
            ck.violation("trace:%s:%s" % (bad.get("e"), _node_kind(term, bad.get("n", 1)) if term is not None else "?"),
                         "history recorded from a real termination condition (term code %s) rejected by PTC at event %d: %s"
                         % (term, prefix - a + 1, json.dumps(bad)), rp)
    ck.sample({"kind": "recorded history excerpt", "events": vlib.read_ndjson(paths[0][0])[:7]})


# ----------------------------------------------------------------------------- cost convergence

def _costconv(ck, binary, tier):
    if tier == "quick":
        cfgs = [("cc-6", (1, 2, 4, 8), (1, 2, 4), (8, 2), 6)]
    else:
        cfgs = [("cc-6", (1, 2, 4, 8), (1, 2, 4), (8, 2), 6), ("cc-7", (1, 2, 3, 4, 8), (1, 2, 3, 4), (8, 2), 7)]
    for name, costs, windows, eds, maxlen in cfgs:
        sc = []
        res = run_tlc("base/CostConvergence", cfg=_cc_cfg(name, costs, windows, eds, maxlen), workers=vlib.NCPU,
                      timeout=3000, json_sink=sc.append)
        _model(ck, res, name)
        expect = len(costs) ** maxlen * len(windows) * len(eds)
        if len(sc) != expect:
            raise FrameworkError("CostConvergence emitted %d scenarios, expected %d" % (len(sc), expect))
        spath = os.path.join(WORK, "c18-%s.ndjson" % name)
        vlib.write_ndjson(spath, sc)
        differ = [s for s in sc if s["firedAt"] != s["slidingAt"]]
        ck.set("costconv_%s" % name, {
            "sequences": len(sc), "fire": sum(1 for s in sc if s["firedAt"]),
            "threshold_hit_exactly": sum(1 for s in sc if s["exactAt"] and (not s["firedAt"] or s["exactAt"] <= s["firedAt"])),
            "literal_sliding_window_reading_fires_elsewhere": len(differ),
            "example_where_readings_differ": differ[0] if differ else None})
        rc, out, err = _hrun([binary, "costconv", spath], timeout=3000)
        summ = _parse(out, "SUMMARY")
        if summ is None:
            if _crashed(rc, out):
                rp = ck.replay_file("costconv-%s.ndjson" % name)
                shutil.copyfile(spath, rp)
                ck.violation("crash:costconv", "ptc harness crashed / sanitizer abort while replaying cost sequences: "
                             + (err or out)[-600:], rp)
                continue
            raise FrameworkError("ptc costconv produced no summary (rc=%s): %s" % (rc, (out + err)[-2000:]))
        if not (summ["fired"] and summ["neverFired"] and summ["skippedExact"] and summ["compared"]):
            raise FrameworkError("vacuity gate: cost sequences do not cover fired / never fired / exact hits: %s" % summ)
        ck.add("traces_validated_against_impl", summ["scenarios"])
        ck.add("costconv_comparisons", summ["compared"])
        if summ["failures"]:
            first = _parse(out, "FAIL")
            rp = ck.replay_file("costconv-%s-scenario.ndjson" % name,
                                json.dumps({k: v for k, v in first["scenario"].items() if k != "style"}) + "\n")
            s = first["scenario"]
            ck.violation("costconv:%s" % _cat(first["why"]).split(":")[-1],
                         "%d of %d cost sequences decided differently by the real CostConvergenceTerminationCondition; "
                         "first: window=%d epsilon=1/%d costs=%s: %s (rule fires at report %s)"
                         % (summ["failures"], summ["scenarios"], s["w"], s["ed"], s["costs"], first["why"],
                            s["firedAt"] or "never"), rp)
        else:
            ck.sample({"kind": "cost sequences replayed", "config": name, "sequences": len(sc),
                       "comparisons": summ["compared"], "example": sc[len(sc) // 3]})


# ----------------------------------------------------------------------------- timed / periodic traces

def _timed_once(binary, tag, nexec, jobs, sd, races=0):
    tpath = os.path.join(WORK, "c18-timed-%s.ndjson" % tag)
    rc, out, err = _hrun([binary, "timed", tpath, str(nexec), str(jobs), str(races)], timeout=1800,
                         env={"VERIF_SEED": str(sd)})
    info = _parse(out, "RECORDED")
    return tpath, rc, out, err, info


def _bad_reason(res, var):
    m = re.findall(var + r' = "([^"]*)"', res.out)
    m = [x for x in m if x]
    return m[-1] if m else "unknown"


def _timed(ck, binary, tier):
    # races: rounds in which terminate() is forced to land while the evaluator thread is inside the predicate
    nexec, jobs, races = (48, 8, 12) if tier == "quick" else (480, 12, 40)
    jobs = max(2, min(jobs, vlib.NCPU))
    attempt, sd = 0, vlib.seed()
    while True:
        tpath, rc, out, err, info = _timed_once(binary, "a%d" % attempt, nexec, jobs, sd, races)
        if rc == 71:
            rp = ck.replay_file("trace-timed-hang.txt", out[-2000:])
            ck.violation("timed:destroy-never-returns", "destroying a periodically evaluated termination condition did "
                         "not return within 60 s: the evaluator thread does not stop", rp)
            return
        if rc != 0 or info is None:
            if _crashed(rc, out):
                rp = ck.replay_file("trace-timed-crash.txt", (out + err)[-4000:])
                ck.violation("crash:timed", "ptc harness crashed / sanitizer abort while driving timed conditions: "
                             + (err or out)[-600:], rp)
                return
            raise FrameworkError("ptc timed failed (rc=%s): %s" % (rc, (out + err)[-2000:]))
        evs = vlib.read_ndjson(tpath)
        ck.add("timed_clock_disturbed_executions", info["clockDisturbed"])
        per = [e for e in evs if e["e"] == "Eval" and "cb" in e]
        premise = sum(1 for e in per if e["ft"] > 0 and e["cb"] > e["ft"])
        kinds = set(e["e"] for e in evs)
        race_polls = sum(1 for e in evs if e["e"] == "Eval" and "via" in e and e["r"])
        ck.add("timed_race_rounds", info.get("raceRounds", 0))
        ck.add("timed_race_rounds_inconclusive", info.get("raceInconclusive", 0))
        ck.add("timed_race_polls_after_terminate", race_polls)
        if info.get("raceRounds", 0) < 5:
            raise FrameworkError("vacuity gate: only %s conclusive rounds of terminate() during an in-flight predicate "
                                 "(need 5): %s" % (info.get("raceRounds"), info))
        if info["executions"] < nexec // 2:
            raise FrameworkError("more than half of the timed executions saw a stepped wall clock: %s" % info)
        if not {"CreateTimed", "CreatePeriodic", "Eval", "Flip", "Terminate", "Destroy"} <= kinds or not premise \
                or not info["true"] or info["true"] == info["evals"]:
            raise FrameworkError("vacuity gate: timed trace lacks events %s / poll premise %d / results %s"
                                 % (sorted(kinds), premise, info))
        acc, prefix, res = validate_trace("base/PTCTimedTrace", tpath, timeout=1200, heap="3g")
        ck.add("states", res.distinct)
        ck.add("transitions", res.generated)
        ck.add("timed_events", len(evs))
        ck.add("timed_poll_premise_evals", premise)
        if acc:
            ck.add("traces_validated_against_impl", info["executions"])
            ck.add("timed_executions_validated", info["executions"])
            ck.sample({"kind": "timed trace excerpt", "events": evs[1:6]})
            return
        hard = res.violated == "NoBad"
        if not hard:
            # a soft (wall-clock lag) fact failed first: does the same trace break a one-sided fact?
            acc2, prefix2, res2 = validate_trace("base/PTCTimedTrace", tpath, cfg="PTCTimedTraceHard.cfg", timeout=1200)
            if not acc2:
                hard, prefix, res = True, prefix2, res2
        if hard:
            reason = _bad_reason(res, "bad") if res.violated == "NoBad" else "malformed-event"
            bad_i = max(prefix - 1, 0) if res.violated == "NoBad" else prefix
            a = bad_i
            while a > 0 and evs[a].get("e") != "Reset":
                a -= 1
            rp = ck.replay_file("trace-timed-%s.ndjson" % reason)
            vlib.write_ndjson(rp, evs[a:bad_i + 1])
            ck.violation("timed:" + reason,
                         "real timed / periodic termination condition breaks the one-sided fact '%s' at event %d of its "
                         "execution: %s (created by %s)" % (reason, bad_i - a + 1, json.dumps(evs[bad_i]),
                                                            json.dumps(evs[a + 1] if a + 1 < len(evs) else {})), rp)
            return
        # only the wall-clock lag bound (with slack) failed: a starved thread can do that
        soft = _bad_reason(res, "softBad")
        ck.add("timed_soft_lag_rejections", 1)
        log("[C18] note: lag bound with slack exceeded (%s) in a recorded trace; no one-sided fact broken" % soft)
        if attempt == 1:
            ck.set("timed_soft_lag_unresolved", soft)
            log("[C18] note: lag bound exceeded again on the re-run; not reported (no deterministic evidence)")
            ck.add("traces_validated_against_impl", info["executions"])
            return
        attempt, sd = 1, sd + 7777


# ----------------------------------------------------------------------------- entry points

def run(tier):
    ck = Check(PID, tier, "model_checking")
    ck.assumptions += [
        "predicates are side-effect free apart from the harness's invocation counter",
        "terminate() and eval() are called from one thread (cross-thread terminate is C19)",
        "cost-convergence windows and epsilons used for exact comparison are dyadic; cost sequences that hit a "
        "threshold exactly are tagged by the specification and not compared from that report on",
        "the wall clock is not stepped while a timed trace is recorded (executions that saw a step are discarded)",
        "the wall-clock lag bound of the periodic form (period + max(10 periods, 1 s)) never decides a verdict on its "
        "own; the lag is decided in polls of the evaluator thread",
    ]
    binary = build_harness("ptc", needs_lib=True)
    rnd = random.Random(vlib.seed() * 9176 + 3)
    uni2 = _d2_universe()
    if tier == "quick":
        k2, k2len, walks1, walks2, mode1 = 12, 3, 2000, 1000, "edges"
        periodic = ("periodic-q", (0, 1, 2), (1, 3))
    else:
        k2, k2len, walks1, walks2, mode1 = 90, 40, 20000, 5000, "pairs"
        periodic = ("periodic-t", (0, 1, 2, 3, 5), (1, 2, 4))
    ids2 = sorted(rnd.sample(uni2, k2))
    ck.set("depth2_terms_sampled", ids2[:40])

    # 1. the term model against its contract
    # (the unbounded graphs of these terms are model-checked by the dump runs of step 2)
    # behaviours of <= 8 steps with exact (unsaturated) iteration counters: only terms that contain
    # an iteration condition behave differently from the saturating configuration
    def has_iter(t):
        return t >= 50000 or (4 <= t <= 6) or (t >= 8 and (4 <= ((t - 8) % 64) // 8 <= 6 or 4 <= (t - 8) % 8 <= 6))
    runs = [("mc-len8", [t for t in D1_IDS if has_iter(t)] + ids2[:k2len], 7, 99, 8)]
    if tier == "thorough":
        # every term of depth 2 without terminate(), a large sample with one terminate() per behaviour
        runs.append(("mc-all-d2", "ALL-D2", 0, 3, 0))
        runs.append(("mc-d2-term1", sorted(rnd.sample(uni2, 1500)), 1, 3, 0))
    for name, ids, maxterm, cap, maxlen in runs:
        res = run_tlc("base/PTC", cfg=_ptc_cfg(name, ids, maxterm, cap, maxlen, False), workers=vlib.NCPU,
                      timeout=3000, heap="6g")
        _model(ck, res, name)
    ck.set("exhaustive", True)
    ck.set("exhaustive_scope", "every TLC configuration is enumerated completely; the terms of depth <= 1 (136) and the "
           "shared-operand graphs are covered completely, the 36864 terms of depth 2 by a seeded sample (graph replay, "
           "recorded histories) in the quick tier and completely (model checking without terminate, one recorded "
           "history each) in the thorough tier")

    # 2. every transition of the state graphs replayed on real conditions
    _dump_and_replay(ck, binary, "dump-d1", D1_IDS, 7, mode1, walks1)
    chunk = 30
    for i in range(0, len(ids2), chunk):   # chunks bound the size of one dumped graph
        _dump_and_replay(ck, binary, "dump-d2" + ("-%d" % (i // chunk) if len(ids2) > chunk else ""),
                         ids2[i:i + chunk], 2, "edges", walks2)

    # 3. histories recorded from real terms of the whole universe, validated against the model
    _histories(ck, binary, tier)

    # 4. the periodic and timed forms: model
    res = run_tlc("base/PTCPeriodic", cfg=_periodic_cfg(*periodic), workers=vlib.NCPU, timeout=3000, coverage=True)
    _model(ck, res, periodic[0])
    need = {"TLoop", "TCall", "TStore", "TChk", "TWake", "Tick", "Flip", "CEval", "CTerminate", "CDestroy", "CJoin"}
    never = [a for a in need if res.coverage.get(a, (0, 0))[0] == 0]
    if never:
        raise FrameworkError("vacuity gate: PTCPeriodic actions never taken: %s (%s)" % (never, res.coverage))
    ck.set("periodic_actions_taken", {a: res.coverage[a][0] for a in sorted(need)})
    # vacuity gate: the model must reach terminate() landing while the predicate is in flight - the seeded
    # lost-update transcription (eval reads only the cached value, terminate also sets it, the evaluator
    # stores unconditionally) differs from the library only there, and TLC must reject it
    lost = run_tlc("base/PTCPeriodic", cfg="PTCPeriodicLost.cfg", workers=min(4, vlib.NCPU), timeout=600)
    ck.tlc(lost, "periodic-lost-update-variant")
    if lost.violated != "TerminateSticky":
        raise FrameworkError("vacuity gate: the lost-update variant of PTCPeriodic is not rejected by TerminateSticky "
                             "(violated=%s): terminate() during an in-flight predicate call is not explored" % lost.violated)
    ck.set("periodic_lost_update_variant_rejected_by", lost.violated)

    # 5. cost convergence
    _costconv(ck, binary, tier)

    # 6. the real timed and periodic conditions under the clock
    _timed(ck, binary, tier)
    return ck.finish()


def replay(path):
    """Re-execute a replay artefact written by this check."""
    base = os.path.basename(path)
    if base.startswith("trace-ptc"):
        acc, prefix, res = validate_trace("base/PTCTrace", path)
        print("accepted" if acc else "REJECTED at event %d" % (prefix + 1))
        return 0 if acc else 1
    if base.startswith("trace-timed") and base.endswith(".ndjson"):
        acc, prefix, res = validate_trace("base/PTCTimedTrace", path, cfg="PTCTimedTraceHard.cfg")
        print("accepted" if acc else "REJECTED: %s" % _bad_reason(res, "bad"))
        return 0 if acc else 1
    if base.startswith("trace-timed"):
        print(open(path).read())
        return 1
    binary = build_harness("ptc", needs_lib=True)
    if base.startswith("costconv"):
        rc, out, err = _hrun([binary, "costconv", path])
    else:
        rc, out, err = _hrun([binary, "replay", path, "edges", "0"])
    print(out[-3000:])
    print(err[-1000:])
    return 1 if rc else 0


def selftest():
    """Binding demonstration for the two trace specifications: a recorded trace with one field
    corrupted by hand must be rejected (and the untouched one accepted)."""
    binary = build_harness("ptc", needs_lib=True)
    ok = True
    hp = os.path.join(WORK, "c18-selftest-hist.ndjson")
    rc, out, err = _hrun([binary, "record", hp, "sample", "60", "12"], timeout=600)
    rows = vlib.read_ndjson(hp)
    acc, _, _ = validate_trace("base/PTCTrace", hp, heap="3g")
    print("history trace as recorded: %s" % ("accepted" if acc else "REJECTED"))
    ok = ok and acc
    evals = [i for i, r in enumerate(rows) if r["e"] == "Eval"]
    for what, fn in (("result flipped", lambda r: r.update(r=not r["r"])),
                     ("invocation count + 1", lambda r: r.update(c=[r["c"][0] + 1, r["c"][1]]))):
        bad = [dict(r) for r in rows]
        i = evals[len(evals) // 2]
        fn(bad[i])
        bp = os.path.join(WORK, "c18-selftest-hist-bad.ndjson")
        vlib.write_ndjson(bp, bad)
        acc, prefix, _ = validate_trace("base/PTCTrace", bp, heap="3g")
        print("history trace, %s at line %d: %s (matched prefix %s)" % (what, i, "accepted" if acc else "rejected", prefix))
        ok = ok and not acc and prefix == i
    tp, rc, out, err, info = _timed_once(binary, "selftest", 16, 4, 1)
    rows = vlib.read_ndjson(tp)
    acc, _, _ = validate_trace("base/PTCTimedTrace", tp, cfg="PTCTimedTraceHard.cfg", heap="3g")
    print("timed trace as recorded: %s" % ("accepted" if acc else "REJECTED"))
    ok = ok and acc

    def first(pred):
        return next(i for i, r in enumerate(rows) if pred(r))
    cases = [
        ("true-before-duration", first(lambda r: r["e"] == "Eval" and "cb" not in r and not r["r"]), lambda r: r.update(r=True)),
        ("thread-alive-after-destroy", first(lambda r: r["e"] == "Destroy"), lambda r: r.update(c2=r["c2"] + 1)),
        ("predicate-on-caller", first(lambda r: r["e"] == "Eval" and "cb" in r), lambda r: r.update(cc=1)),
        ("stale-after-poll", first(lambda r: r["e"] == "Eval" and "cb" in r and r["cb"] > r["ft"] > 0 and r["r"]),
         lambda r: r.update(r=False)),
    ]
    for want, i, fn in cases:
        bad = [dict(r) for r in rows]
        fn(bad[i])
        bp = os.path.join(WORK, "c18-selftest-timed-bad.ndjson")
        vlib.write_ndjson(bp, bad)
        acc, prefix, res = validate_trace("base/PTCTimedTrace", bp, cfg="PTCTimedTraceHard.cfg", heap="3g")
        got = _bad_reason(res, "bad")
        print("timed trace, line %d corrupted: %s, reason %s (expected %s)" % (i, "accepted" if acc else "rejected", got, want))
        ok = ok and not acc and got == want
    print("SELFTEST %s" % ("ok" if ok else "FAILED"))
    return 0 if ok else 1
