"""Shared machinery of C06 (distances) and C07 (interpolation).

1. TLC checks the laws on the exact lattice model base/SpaceAlgebra.tla for every enumerated case
   and prints each case with its expected outcome (M3); the harness replays every case on the real
   state space and compares with the expectation.
2. The harness records fixed-point observations of every shipped space (incl. the ones without a
   lattice model) on adversarial inputs; TLC decides the laws of base/SpaceLaws.tla on them
   (base/SpaceLawsTrace.tla) and reports every broken (space, law, case-split) with its first line.
"""
import concurrent.futures
import json
import os
import shutil
import vlib
from vlib import Check, run_tlc, run_cmd, build_harness, FrameworkError, WORK, log

LATTICE = ["rv1", "rv2", "rv3", "so2", "so3", "time", "disc", "torus", "se2", "se3", "nest", "hybrid",
           "rot3", "wrap-se2", "wrap-so3", "wrap-nest", "se2w", "se3w", "nest-se2w", "nest-se3w", "wrap-se2w",
           "empty", "spacetime", "spacetime2"]
# heaviest first so that the pool finishes evenly
ORDER = ["se3", "nest", "rot3", "se3w", "nest-se3w", "se2", "se2w", "nest-se2w", "wrap-se2w", "torus", "so3", "wrap-so3", "wrap-nest", "so2", "rv3", "rv2", "hybrid",
         "spacetime2", "spacetime", "wrap-se2", "rv1", "time", "disc", "empty"]
INVARIANTS = {6: "NonNegative Identity Positivity Symmetry ExtentBound CompoundIsWeightedSum Triangle SpaceTimeLaw",
              7: "Endpoints StaysInBounds Reparameterisation Proportionality"}
NEED_CLASSES = {
    6: ["so2:antipodal", "so2:seam", "so2:coincident", "so2:minus-pi", "so3:negated", "so3:long-way", "so3:orthogonal",
        "so3:coincident", "rv:extent", "rv:coincident", "time:extent", "disc:extent",
        "spacetime:unreachable", "spacetime:on-the-light-cone", "spacetime:reachable-generic"],
    7: ["so2:antipodal", "so2:seam", "so2:lands-on-minus-pi", "so2:minus-pi", "so3:long-way", "so3:orthogonal",
        "so3:negated", "rv:extent", "t:0", "t:1", "u:1", "spacetime:unreachable", "spacetime:on-the-light-cone"],
}
PROBE_CLASSES = ["random", "lattice", "seam", "antipodal", "near-antipodal", "coincident", "near-1e-9", "near-1e-12",
                 "bound", "corner", "pivot", "so3-threshold", "level", "altitude", "light-cone", "canned-level",
                 "canned-climb", "canned-loop", "canned-loop-vana", "canned-nopath", "canned-steep", "canned-medium"]
# what the recording must have met in the spaces with laws of their own (counted by the harness from the real objects)
NEED_FACTS = {
    6: ["airplane_pairs_with_path", "spacetime_finite", "spacetime_infinite"],
    7: ["airplane_interp_with_path", "Owen_path_category_L", "Owen_path_category_M", "Owen_path_category_H",
        "VanaOwen_path_category_L", "VanaOwen_path_category_M", "VanaOwen_path_category_H",
        "spacetime_interp_reachable", "spacetime_interp_unreachable", "constrained_geodesic_succeeded",
        "constrained_geodesic_failed"],
}
D2_KEY = "so2-interpolate-plus-pi"


def _cfg(pid, space, size, prop):
    d = vlib.ensure_dir(os.path.join(WORK, "cfg-" + pid.lower()))
    p = os.path.join(d, "%s-%d.cfg" % (space, size))
    body = ["SPECIFICATION Spec", "CONSTANTS", '  SpaceId = "%s"' % space, "  Size = %d" % size, "  Prop = %d" % prop,
            "INVARIANTS " + INVARIANTS[prop], "ACTION_CONSTRAINT Dump"]
    open(p, "w").write("\n".join(body) + "\n")
    return p


def _emit(args):
    """(child process) model-check one lattice space and stream its cases to a file."""
    pid, space, size, prop, workers = args
    path = os.path.join(WORK, "%s-cases-%s.ndjson" % (pid.lower(), space))
    n = [0]
    with open(path, "w") as f:
        def sink(obj):
            if obj.get("k") == "from":
                return
            f.write(json.dumps(obj, separators=(",", ":")) + "\n")
            n[0] += 1
        res = run_tlc("base/SpaceAlgebra", cfg=_cfg(pid, space, size, prop), workers=workers, timeout=3000,
                      heap="3g", json_sink=sink)
    return {"space": space, "path": path, "lines": n[0], "error": res.error, "violated": res.violated,
            "summary": res.summary("lattice-%s-size%d" % (space, size)), "generated": res.generated,
            "distinct": res.distinct, "tail": res.out[-1500:]}


class _Res:
    def __init__(self, d):
        self.error = d["error"]
        self.generated = d["generated"]
        self.distinct = d["distinct"]
        self._s = d["summary"]

    def summary(self, name):
        return self._s


def _parse(out, tag):
    rows = []
    for line in out.splitlines():
        if line.startswith(tag + " "):
            rows.append(json.loads(line[len(tag) + 1:]))
    return rows


class Pending:
    """Violations aggregated per key (one VIOLATION line per key, whatever the number of spaces it shows on)."""

    def __init__(self):
        self.rows = {}

    def add(self, key, desc, replay, n=1):
        r = self.rows.setdefault(key, {"desc": [], "replay": replay, "n": 0})
        r["desc"].append(desc)
        r["n"] += n

    def flush(self, ck):
        for key in sorted(self.rows):
            r = self.rows[key]
            more = "" if len(r["desc"]) == 1 else " || also: " + " | ".join(d[:90] for d in r["desc"][1:6])
            ck.violation(key, "[%d case(s)] %s%s" % (r["n"], r["desc"][0], more), r["replay"])


def lattice_phase(ck, pend, pid, prop, binary, tier):
    """TLC on the lattice model, then replay of every emitted case.  Returns totals."""
    size = 1 if tier == "quick" else 2
    # about NCPU threads in total (vlib.NCPU honours the development throttle)
    workers = 2 if vlib.NCPU >= 4 else 1
    procs = max(1, min(8, vlib.NCPU // workers))
    jobs = [(pid, sp, size, prop, workers) for sp in ORDER]
    with concurrent.futures.ProcessPoolExecutor(max_workers=procs) as ex:
        results = list(ex.map(_emit, jobs))
    tot = {"cases": 0, "evaluations": 0, "nontrivial": 0, "classes": {}, "drift": {}, "spaces": []}
    for r in results:
        ck.tlc(_Res(r), r["summary"]["config"])
        if r["violated"]:
            raise FrameworkError("the lattice model itself violates %s on space %s: it is not a model of the "
                                 "property\n%s" % (r["violated"], r["space"], r["tail"]))
        if r["lines"] < 2:
            raise FrameworkError("no cases emitted for lattice space %s" % r["space"])

    def rep(r):
        return r, run_cmd([binary, "replay%02d" % prop, r["path"]], timeout=3000)

    with concurrent.futures.ThreadPoolExecutor(max_workers=max(1, min(8, vlib.NCPU))) as ex:
        replays = list(ex.map(rep, results))
    for r, (rc, out, err) in replays:
        summ = _parse(out, "SUMMARY")
        if not summ:
            crash = "CRASH" in out or rc in (70, 77, 78) or rc < 0
            if crash:
                rp = ck.replay_file("cases-%s.ndjson" % r["space"])
                shutil.copyfile(r["path"], rp)
                ck.violation("%s:%s:crash" % (pid.lower(), r["space"]), "spaces harness crashed while replaying the lattice "
                             "cases of %s: %s" % (r["space"], (err or out)[-600:]), rp)
                continue
            raise FrameworkError("replay of %s produced no summary (rc=%s): %s" % (r["space"], rc, (out + err)[-2000:]))
        summ = summ[0]
        if summ["cases"] != r["lines"] - 1:
            raise FrameworkError("replay of %s evaluated %d of %d cases" % (r["space"], summ["cases"], r["lines"] - 1))
        tot["cases"] += summ["cases"]
        tot["evaluations"] += summ["evaluations"]
        tot["nontrivial"] += summ["nontrivial"]
        for k, v in summ["classes"].items():
            tot["classes"][k] = tot["classes"].get(k, 0) + v
        for k, v in summ["drift"].items():
            tot["drift"][k] = tot["drift"].get(k, 0) + v
        tot["spaces"] += summ["spaces"]
        for k in ("triangles", "unequal_pairs", "proportionality_checked", "reparameterisation_checked"):
            if k in summ:
                tot[k] = tot.get(k, 0) + summ[k]
        header = open(r["path"]).readline()
        for fail in _parse(out, "FAIL"):
            key = fail["key"]
            n = summ["keys"].get(key, 1)
            rp = ck.replay_file("cases-%s-%s.ndjson" % (r["space"], vlib.digest(key)),
                                header + json.dumps(fail["case"]["case"], separators=(",", ":")) + "\n")
            pend.add(key, "%d lattice case(s) of %s: %s; first: a=%s b=%s" %
                     (n, r["space"], fail["why"], json.dumps(fail["case"]["case"].get("a")),
                      json.dumps(fail["case"]["case"].get("b"))), rp, n)
    if not ck.cov["samples"]:
        for sp in ("so2", "se3"):
            rows = vlib.read_ndjson(os.path.join(WORK, "%s-cases-%s.ndjson" % (pid.lower(), sp)))
            pick = [x for x in rows[1:] if any("antipodal" in c or "long-way" in c or "seam" in c for c in x["cls"])]
            ck.sample({"kind": "lattice case with the model's expectation", "space": sp, "case": (pick or rows[1:])[len(pick) // 2]})
    missing = [c for c in NEED_CLASSES[prop] if not tot["classes"].get(c)]
    if missing:
        raise FrameworkError("vacuity gate: lattice case classes never enumerated: %s" % missing)
    return tot


def _split_trace(path, parts):
    """Split a recorded trace at Space events into `parts` files of similar size."""
    blocks, cur = [], []
    for line in open(path):
        if line.startswith('{"e":"Space"') or '"e":"Space"' in line[:40]:
            if cur:
                blocks.append(cur)
            cur = []
        cur.append(line)
    if cur:
        blocks.append(cur)
    blocks.sort(key=len, reverse=True)
    files = [[] for _ in range(parts)]
    for b in blocks:
        min(files, key=lambda f: sum(len(x) for x in f)).append(b)
    out = []
    for i, fb in enumerate(files):
        if not fb:
            continue
        p = "%s.part%d" % (path, i)
        with open(p, "w") as f:
            for b in fb:
                f.writelines(b)
        out.append(p)
    return out


def _trace_cfg(pid):
    d = vlib.ensure_dir(os.path.join(WORK, "cfg-" + pid.lower()))
    p = os.path.join(d, "trace.cfg")
    # acceptance is the printed verdict (no counterexample to print: much faster than violating NotAccepted)
    open(p, "w").write("SPECIFICATION TSpec\nCHECK_DEADLOCK FALSE\n")
    return p


def _validate(args):
    pid, path = args
    res = run_tlc("base/SpaceLawsTrace", cfg=_trace_cfg(pid), workers=1, timeout=3000, env={"TRACE": path}, heap="3g")
    verdict = [j for j in res.json if j.get("k") == "verdict"]
    return {"path": path, "error": res.error, "violated": res.violated, "verdict": verdict[-1] if verdict else None,
            "summary": res.summary("trace-" + os.path.basename(path)), "generated": res.generated,
            "distinct": res.distinct, "tail": res.out[-1500:]}


def validate_trace_file(pid, path):
    return _validate((pid, path))


def key_of(v):
    if v["law"] == "in-bounds-plus-pi" and "KleinBottle" not in v["space"]:
        return D2_KEY   # the Klein bottle re-wraps v with its own copy of the code: kept under its own key
    k = "%s:%s" % (v["space"], v["law"])
    return k + (":" + v["tag"] if v["tag"] else "")


def trace_phase(ck, pend, pid, prop, binary, tier):
    n = 40 if tier == "quick" else 400
    tpath = os.path.join(WORK, "%s-trace.ndjson" % pid.lower())
    rc, out, err = run_cmd([binary, "record%02d" % prop, tpath, str(n)], timeout=3000,
                           env={"VERIF_SEED": str(vlib.seed())})
    recd = _parse(out, "RECORDED")
    if rc != 0 or not recd:
        rp = ck.replay_file("trace-crash.ndjson")
        if os.path.exists(tpath):
            shutil.copyfile(tpath, rp)
        if "CRASH" in out or rc in (70, 77, 78) or rc < 0:
            ck.violation("%s:record-crash" % pid.lower(), "spaces harness crashed while recording: " + (err or out)[-600:], rp)
            return {"events": 0, "nontrivial": 0}
        raise FrameworkError("recording failed (rc=%s): %s" % (rc, (out + err)[-2000:]))
    recd = recd[0]
    missing = [c for c in PROBE_CLASSES if not recd["classes"].get(c)]
    if missing:
        raise FrameworkError("vacuity gate: probe classes never recorded: %s" % missing)
    missing = [c for c in NEED_FACTS[prop] if not recd["facts"].get(c)]
    if missing:
        raise FrameworkError("vacuity gate: situations the recording never met: %s (met: %s)" % (missing, recd["facts"]))
    parts = _split_trace(tpath, 6 if tier == "quick" else 12)
    with concurrent.futures.ProcessPoolExecutor(max_workers=max(1, min(6, vlib.NCPU))) as ex:
        vals = list(ex.map(_validate, [(pid, p) for p in parts]))
    cnt = {}
    lines = 0
    for v in vals:
        ck.tlc(_Res(v), v["summary"]["config"])
        if v["verdict"] is None:
            rp = ck.replay_file("trace-rejected.ndjson")
            shutil.copyfile(v["path"], rp)
            ck.violation("%s:trace-rejected" % pid.lower(), "recorded observations not accepted by SpaceLawsTrace (crash event "
                         "or malformed line): " + v["tail"][-400:], rp)
            continue
        ver = v["verdict"]
        lines += ver["lines"]
        for k, x in ver["cnt"].items():
            cnt[k] = cnt.get(k, 0) + x
        evs = None
        for viol in sorted(ver["viol"], key=lambda z: (z["space"], z["law"], z["tag"])):
            if evs is None:
                evs = open(v["path"]).read().splitlines()
            bad = json.loads(evs[viol["line"] - 1])
            # the Space event of the block the offending line belongs to
            hdr = next(evs[i] for i in range(viol["line"] - 1, -1, -1) if '"e":"Space"' in evs[i][:40])
            key = key_of(viol)
            rp = ck.replay_file("trace-%s.ndjson" % vlib.digest(key + viol["space"]), hdr + "\n" + evs[viol["line"] - 1] + "\n")
            obs = {k2: bad[k2] for k2 in bad if k2 not in ("repro", "e")}
            pend.add(key, "%s: law '%s' broken on %d recorded %s (probe class %s); first: %s; observed %s" %
                     (viol["space"], viol["law"], viol["n"], "triples" if prop == 6 else "interpolation probes",
                      bad.get("cls"), bad.get("repro"), json.dumps(obs, separators=(",", ":"))[:330]), rp, viol["n"])
    if prop == 6:
        need = ["spaces", "triples", "triangle", "symmetry", "extent", "compound", "unequal", "straightLine", "stPairs",
                "stInfinite", "stFinite"]
    else:
        need = ["spaces", "interps", "reparam", "proportional", "noJumps", "interpBasic", "cInterps", "cReached", "cFailed"]
    if any(v["verdict"] is None for v in vals):
        return {"events": recd["events"], "nontrivial": recd["nontrivial"], "cnt": cnt}
    zero = [k for k in need if not cnt.get(k)]
    if zero:
        raise FrameworkError("vacuity gate: laws that never applied in the recorded trace: %s" % zero)
    if lines != recd["lines"]:
        raise FrameworkError("trace validation covered %d of %d recorded lines" % (lines, recd["lines"]))
    evs = vlib.read_ndjson(tpath)
    pick = [e for e in evs if e.get("cls") == "seam"][:1] + [e for e in evs if e.get("cls") == "near-antipodal"][-1:]
    for e in pick:
        ck.sample({"kind": "recorded observation (fixed point, micro-units)", "event": e})
    return {"events": recd["events"], "nontrivial": recd["nontrivial"], "cnt": cnt, "classes": recd["classes"],
            "facts": recd["facts"]}


def run(pid, prop, tier, rule, assumptions):
    ck = Check(pid, tier, "exploration")
    ck.assumptions += assumptions
    binary = build_harness("spaces", needs_lib=True)
    pend = Pending()
    lat = lattice_phase(ck, pend, pid, prop, binary, tier)
    tr = trace_phase(ck, pend, pid, prop, binary, tier)
    pend.flush(ck)
    ck.set("evaluations", lat["cases"] + tr["events"])
    ck.set("distinct_nontrivial", lat["nontrivial"] + tr["nontrivial"])
    ck.set("rule", rule)
    ck.set("lattice_cases_replayed", lat["cases"])
    ck.set("real_function_calls_in_replay", lat["evaluations"])
    ck.set("recorded_events_validated", tr["events"])
    ck.set("lattice_case_classes", lat["classes"])
    ck.set("lattice_spaces", lat["spaces"])
    ck.set("model_drift", lat["drift"])
    for k in ("triangles", "unequal_pairs", "proportionality_checked", "reparameterisation_checked"):
        if k in lat:
            ck.set("lattice_" + k, lat[k])
    ck.set("trace_law_applications", tr.get("cnt", {}))
    ck.set("probe_classes", tr.get("classes", {}))
    ck.set("recorded_situations", tr.get("facts", {}))
    ck.set("exhaustive", False)
    return ck.finish()


def replay(pid, prop, path):
    """cases-*.ndjson: replay on the real space; trace-*.ndjson: re-validate with TLC."""
    base = os.path.basename(path)
    if base.startswith("trace"):
        v = validate_trace_file(pid, os.path.abspath(path))
        if v["error"]:
            raise FrameworkError(v["error"])
        if v["verdict"] is None:
            print("REJECTED: trace not accepted\n" + v["tail"])
            return 1
        for viol in v["verdict"]["viol"]:
            print("law broken: %s (key %s), %d event(s), first at line %d" % (viol["law"], key_of(viol), viol["n"], viol["line"]))
        print("accepted, %d broken law(s)" % len(v["verdict"]["viol"]))
        return 1 if v["verdict"]["viol"] else 0
    binary = build_harness("spaces", needs_lib=True)
    rc, out, err = run_cmd([binary, "replay%02d" % prop, path])
    print(out[-4000:])
    return 1 if rc else 0
