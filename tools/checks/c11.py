"""C11 - the updatable heap always pops in order.

1. TLC model-checks the implementation-shaped spec ds/BinaryHeap.tla (every array of <= N keys,
   every operation) against the contract invariants.
2. The explored state graph is dumped; every transition is replayed on ompl::BinaryHeap (three
   comparison functors, ASan build) and judged by contract observations.
3. Random histories recorded from the real heap are validated by TLC against HeapContract.
"""
import json
import os
import shutil
import vlib
from vlib import Check, run_tlc, run_cmd, build_harness, Graph, validate_trace, FrameworkError, WORK, log

PID = "C11"


def _cfg(name, keys, maxsize, bulk, dump, fixed=True, core=False):
    d = vlib.ensure_dir(os.path.join(WORK, "cfg-c11"))
    p = os.path.join(d, name + ".cfg")
    body = ["SPECIFICATION Spec", "CONSTANTS", "  Keys = {%s}" % ", ".join(map(str, keys)),
            "  MaxSize = %d" % maxsize, "  SiftUpOnRemove = %s" % ("TRUE" if fixed else "FALSE"),
            "  MaxBulk = %d" % bulk, "  Core = %s" % ("TRUE" if core else "FALSE"), "VIEW View"]
    if dump:
        body.append("ACTION_CONSTRAINT Dump")
    else:
        body += ["INVARIANTS HeapOrder TopIsMin DrainSorted" + ("" if core else " SortAgrees"), "PROPERTY StepRefinesContract"]
    open(p, "w").write("\n".join(body) + "\n")
    return p


def _parse(out, tag):
    for line in out.splitlines():
        if line.startswith(tag + " "):
            return json.loads(line[len(tag) + 1:])
    return None


def _replay_graph(ck, binary, gpath, label, mode="pairs", walks=2000):
    rc, out, err = run_cmd([binary, "replay", gpath, mode, str(walks)], timeout=3000)
    summ = _parse(out, "SUMMARY")
    if summ is None:
        crash = "CRASH" in out or rc in (70, 77, 78) or rc < 0
        if crash:
            rp = ck.replay_file("graph-%s.ndjson" % label)
            shutil.copyfile(gpath, rp)
            ck.violation("crash:" + label, "heap harness crashed / sanitizer abort while replaying "
                         "specification scenarios: " + (err or out)[-600:], rp)
            return
        raise FrameworkError("heap replay produced no summary (rc=%s): %s" % (rc, (out + err)[-2000:]))
    ck.add("traces_validated_against_impl", summ["scenarios"])
    ck.add("replayed_steps", summ["steps"])
    if summ["failures"]:
        first = _parse(out, "FAIL")
        rp = ck.replay_file("scenario-%s.json" % label, json.dumps(first, indent=1))
        ops = [s["a"] for s in first["scenario"]]
        ck.violation("replay:" + "/".join(ops[-2:]), "%d of %d specification scenarios fail on the real heap; first: %s"
                     % (summ["failures"], summ["scenarios"], first["why"]), rp)
    else:
        ck.sample({"kind": "replayed state graph", "config": label, "edges": summ["edges"], "states": summ["states"]})


def run(tier):
    ck = Check(PID, tier, "model_checking")
    ck.assumptions += ["comparison functor is a strict weak order",
                       "elements created by buildFrom() have no handle, so remove/update never address them",
                       "integer keys; planners' queues use the same template"]
    binary = build_harness("heap", needs_lib=False, san="asan")
    if tier == "quick":
        mcs = [("mc-6x3", (1, 2, 3), 6, 3)]
        dumps = [("dump-6x3", (1, 2, 3), 6, 3)]
        deep = [("deep-16x2", (1, 2), 16, 2)]
        rec = [("less", 15000), ("greater", 10000), ("table", 8000)]
    else:
        mcs = [("mc-7x3", (1, 2, 3), 7, 3), ("mc-6x4", (1, 2, 3, 4), 6, 3)]
        dumps = [("dump-7x3", (1, 2, 3), 7, 2), ("dump-6x4", (1, 2, 3, 4), 6, 2)]
        deep = [("deep-16x2", (1, 2), 16, 2), ("deep-12x3", (1, 2, 3), 12, 2)]
        rec = [("less", 60000), ("greater", 60000), ("table", 60000)] * 3
    # 1. exhaustive model check of the implementation-shaped spec against the contract
    for name, keys, n, bulk in mcs:
        res = run_tlc("ds/BinaryHeap", cfg=_cfg(name, keys, n, bulk, False), workers=vlib.NCPU, timeout=3000, coverage=False)
        ck.tlc(res, name)
        if res.violated:
            # the transcription of the algorithm breaks the contract: a design-level finding;
            # the verdict on the code comes from the replay below, which covers the same shapes
            log("[C11] note: TLC reports %s violated in the algorithm model (%s)" % (res.violated, name))
            ck.set("model_violation", res.violated)
    # 2. every transition of the state graph replayed on the real heap
    for name, keys, n, bulk in dumps:
        edges = []
        res = run_tlc("ds/BinaryHeap", cfg=_cfg(name, keys, n, bulk, True), workers=1, timeout=3000,
                      json_sink=edges.append)
        if res.error:
            raise FrameworkError(res.error)
        g = Graph(edges)
        g.check_connected()
        gpath = g.write(os.path.join(WORK, "c11-%s.ndjson" % name))
        acts = {}
        for e in g.edges:
            acts[e["a"]] = acts.get(e["a"], 0) + 1
        need = {"Insert", "InsertMany", "Remove", "Pop", "Update", "PerturbRebuild", "BuildFrom", "Sort", "Clear"}
        if need - set(acts):
            raise FrameworkError("vacuity gate: actions never taken in the model: %s" % sorted(need - set(acts)))
        ck.set("edges_per_action_" + name, acts)
        _replay_graph(ck, binary, gpath, name)
    # 2b. deep heaps (four and more levels), core alphabet: every transition after its shortest path, plus walks
    for name, keys, n, bulk in deep:
        res = run_tlc("ds/BinaryHeap", cfg=_cfg("mc-" + name, keys, n, bulk, False, core=True), workers=vlib.NCPU, timeout=3000)
        ck.tlc(res, "mc-" + name)
        edges = []
        res = run_tlc("ds/BinaryHeap", cfg=_cfg(name, keys, n, bulk, True, core=True), workers=1, timeout=3000,
                      json_sink=edges.append)
        if res.error:
            raise FrameworkError(res.error)
        g = Graph(edges)
        g.check_connected()
        gpath = g.write(os.path.join(WORK, "c11-%s.ndjson" % name))
        depth_ok = sum(1 for e in g.edges if e["a"] == "Remove" and e["exp"]["n"] >= 11)
        if depth_ok == 0:
            raise FrameworkError("vacuity gate: no removal from a heap of four levels in " + name)
        ck.set("removals_from_four_level_heaps_" + name, depth_ok)
        _replay_graph(ck, binary, gpath, name, mode="edges", walks=3000)
    # 3. recorded random histories validated against the contract
    ck.set("exhaustive", True)
    for i, (variant, nops) in enumerate(rec):
        tpath = os.path.join(WORK, "c11-trace-%d-%s.ndjson" % (i, variant))
        rc, out, err = run_cmd([binary, "record", tpath, str(nops), variant], timeout=600,
                               env={"VERIF_SEED": str(vlib.seed() * 131 + i)})
        if rc != 0:
            rp = ck.replay_file("trace-%d-%s.ndjson" % (i, variant))
            if os.path.exists(tpath):
                shutil.copyfile(tpath, rp)
            ck.violation("record-crash:" + variant, "heap crashed / sanitizer abort under a random history: " + (err or out)[-600:], rp)
            continue
        acc, prefix, res = validate_trace("ds/HeapContractTrace", tpath, timeout=1200)
        nev = sum(1 for _ in open(tpath))
        ck.add("trace_events", nev)
        if acc:
            ck.add("traces_validated_against_impl", 1)
            if i == 0:
                ck.sample({"kind": "recorded trace excerpt", "events": vlib.read_ndjson(tpath)[1:6]})
        else:
            rp = ck.replay_file("trace-%d-%s.ndjson" % (i, variant))
            shutil.copyfile(tpath, rp)
            evs = vlib.read_ndjson(tpath)
            bad = evs[prefix] if prefix < len(evs) else {}
            ck.violation("trace:" + str(bad.get("e")), "recorded heap execution rejected by HeapContract at event %d of %d: %s"
                         % (prefix + 1, nev, json.dumps(bad)), rp)
    return ck.finish()


def replay(path):
    """Re-execute a replay artefact: a trace (.ndjson) is re-validated, a graph is re-replayed."""
    if path.endswith(".ndjson") and "trace" in os.path.basename(path):
        acc, prefix, res = validate_trace("ds/HeapContractTrace", path)
        print("accepted" if acc else "REJECTED at event %d" % (prefix + 1))
        return 0 if acc else 1
    binary = build_harness("heap", needs_lib=False, san="asan")
    if path.endswith(".json"):
        print(open(path).read())
        print("re-run ./check C11 to replay the whole graph; the scenario above is the first failing one")
        return 1
    rc, out, err = run_cmd([binary, "replay", path])
    print(out[-3000:])
    return 1 if rc else 0
