"""C12 - weighted sampling (ompl::PDF) follows the current weights after any edits.

1. TLC model-checks the implementation-shaped spec ds/PDFTree.tla (every weight vector of
   <= N elements over a small weight set, every add / update / remove / clear) against the
   structural invariants and the contract (SampleRefines for r in sixteenths,
   StepRefinesContract).
2. The explored state graph is dumped with, per state, the contract's admissible sets for
   r = 0/16..16/16; every transition (and every pair, and random walks) is replayed on the real
   ompl::PDF under ASan and judged by contract observations.
3. Random histories recorded from the real PDF (integer weights with many zeros, dyadic r,
   element order as getElements() reports it) are validated by TLC against PDFContract.

4. Histories with weights that are NOT exactly representable (0.1, 1/3, 1e-9 next to 1e12) are
   recorded with fixed-point integer images of the weights and validated against the same
   contract by ds/PDFApproxTrace.tla: "what sample returns is a surviving element" and "no
   zero-weight element for 0 < r < 1" are checked exactly, the cumulative interval with the
   rigorous rounding slack the recorder logs.  The spec reports findings per contract clause
   (stable keys nonrep:<clause>).  Set VERIF_C12_NONREP=0 to skip this phase.
5. Design-level rounding model (PDFTree with Drift = TRUE, informational): for the repaired
   algorithm (ExactSums = TRUE, /repo e0af2370e) TLC shows that the in-storage and zero-weight
   clauses survive any +-1 unit rounding of the recomputed sums and of the descent; for the
   algorithm before the repair it reproduces the counterexamples behind the nonrep:* findings.

Independent TLC runs / harness shards are run side by side in worker processes (each TLC run
in its own process: vlib's metadir name is per pid).
"""
import json
import os
import re
import shutil
from concurrent.futures import ProcessPoolExecutor
import vlib
from vlib import Check, run_tlc, run_cmd, build_harness, Graph, validate_trace, FrameworkError, WORK, log

PID = "C12"
SPEC = "ds/PDFTree"
TRACE_SPEC = "ds/PDFContractTrace"
APPROX_SPEC = "ds/PDFApproxTrace"


def _cfg(name, weights, maxsize, dump, drift=None, exact_sums=True):
    d = vlib.ensure_dir(os.path.join(WORK, "cfg-c12"))
    p = os.path.join(d, name + ".cfg")
    body = ["SPECIFICATION Spec", "CONSTANTS", "  Weights = {%s}" % ", ".join(map(str, weights)),
            "  MaxSize = %d" % maxsize, "  ExactSums = %s" % ("TRUE" if exact_sums else "FALSE"),
            "  Drift = %s" % ("TRUE" if drift else "FALSE"), "VIEW View"]
    if drift:
        body.append("INVARIANTS " + " ".join(drift))
    elif dump:
        body.append("ACTION_CONSTRAINT Dump")
    else:
        body += ["INVARIANTS TypeOK RowLengths RowsAreSums IndexConsistent SampleRefines",
                 "PROPERTY StepRefinesContract"]
    open(p, "w").write("\n".join(body) + "\n")
    return p


def _parse_all(out, tag):
    return [json.loads(line[len(tag) + 1:]) for line in out.splitlines() if line.startswith(tag + " ")]


# ------------------------------------------------------------------ jobs (run in worker processes)

def _job_build(san):
    # the sanitizer-free binary only records short histories: -O0 halves its compile time
    return build_harness("pdf", needs_lib=False, san=san, opt="-O1" if san else "-O0")


DRIFT_INVS = ("RowLengths", "IndexConsistent", "RowsAreRoundedSums", "SampleInStorageDrift",
              "NoZeroWeightDrawnDrift")


def _job_drift(name, weights, n, exact_sums, invariants, workers):
    """Design-level model of floating-point rounding (PDFTree with Drift = TRUE).
    exact_sums=True: the repaired algorithm (recompute from children, guarded descent) - the
    rounding-proof clauses are expected to HOLD.  exact_sums=False: the algorithm before repair
    e0af2370e - TLC is expected to produce the counterexample.  Never a verdict on the code."""
    res = run_tlc(SPEC, cfg=_cfg(name, weights, n, False, drift=invariants, exact_sums=exact_sums),
                  workers=workers, timeout=3000)
    res.out = res.out[-6000:]
    return res


def _job_mc(name, weights, n, workers):
    res = run_tlc(SPEC, cfg=_cfg(name, weights, n, False), workers=workers, timeout=3000)
    res.out = res.out[-3000:]
    return res


def _shape_counts(edges):
    """Which internal transitions of remove()/add() the graph contains (vacuity gate)."""
    c = {"add_new_head": 0, "add_no_new_head": 0, "update": 0, "clear_nonempty": 0,
         "remove_single": 0, "remove_last": 0, "remove_swap_general": 0, "remove_sibling": 0,
         "remove_sibling_deep": 0, "remove_row_shrink": 0, "remove_head_drop": 0,
         "remove_no_head_drop": 0, "boundary_r": 0, "zero_weight_states": 0, "zero_total_states": 0}
    for e in edges:
        a, ar, ex = e["a"], e["args"], e["exp"]
        if a == "Add":
            c["add_new_head" if ar["grow"] > 0 else "add_no_new_head"] += 1
        elif a == "Update":
            c["update"] += 1
        elif a == "Clear":
            c["clear_nonempty"] += ar["n"] > 0
        elif a == "Remove":
            if ar["single"]:
                c["remove_single"] += 1
            elif not ar["swap"]:
                c["remove_last"] += 1
            elif ar["sib"]:
                c["remove_sibling"] += 1
                c["remove_sibling_deep"] += ex["n"] >= 3
            else:
                c["remove_swap_general"] += 1
            c["remove_row_shrink"] += ar["shrunk"] > 0
            c["remove_head_drop"] += bool(ar["head"])
            c["remove_no_head_drop"] += (not ar["head"]) and not ar["single"]
        c["boundary_r"] += any(len(s) > 1 for s in ex["adm"])
        if ex["n"] > 0:
            c["zero_weight_states"] += 0 in ex["ws"]
            c["zero_total_states"] += sum(ex["ws"]) == 0
    return c


def _job_dump(name, weights, n):
    edges = []
    res = run_tlc(SPEC, cfg=_cfg(name, weights, n, True), workers=1, timeout=6000, json_sink=edges.append)
    if res.error:
        raise FrameworkError(res.error)
    g = Graph(edges)
    g.check_connected()
    gpath = g.write(os.path.join(WORK, "c12-%s.ndjson" % name))
    return {"name": name, "path": gpath, "edges": len(g.edges), "states": len(g.ids),
            "shapes": _shape_counts(g.edges), "wall": round(res.wall, 1)}


def _job_replay(binary, gpath, mode, walks, shard, nshards):
    return run_cmd([binary, "replay", gpath, mode, str(walks), str(shard), str(nshards)], timeout=6000)


def _trace_stats(path):
    """Counts used for the vacuity gate and the evidence (never for the verdict)."""
    st = {"events": 0, "Sample": 0, "Add": 0, "Update": 0, "Remove": 0, "Clear": 0, "Construct": 0, "Reset": 0,
          "remove_sibling": 0, "remove_last": 0, "remove_other": 0, "interior_boundary_samples": 0,
          "endpoint_samples": 0, "zero_total_samples": 0, "max_live": 0}
    cur = []
    for e in vlib.read_ndjson(path):
        st["events"] += 1
        k = e["e"]
        st[k] = st.get(k, 0) + 1
        if k == "Remove":
            ids = [u for u, _ in cur]
            if e["id"] in ids:
                i, n = ids.index(e["id"]), len(ids)
                st["remove_last" if i + 1 == n else
                   "remove_sibling" if (i + 2 == n and i % 2 == 0) else "remove_other"] += 1
        if k == "Reset":
            cur = []
        elif "ord" in e:
            cur = list(zip(e["ord"], e["ws"]))
            st["max_live"] = max(st["max_live"], len(cur))
        elif k == "Sample":
            tot, pre, ps = sum(w for _, w in cur), 0, {0}
            for _, w in cur:
                pre += w
                ps.add(pre)
            if tot == 0:
                st["zero_total_samples"] += 1
            elif e["num"] in (0, e["den"]):
                st["endpoint_samples"] += 1
            elif (e["num"] * tot) % e["den"] == 0 and (e["num"] * tot) // e["den"] in ps:
                st["interior_boundary_samples"] += 1
    return st


def _job_trace(binary, i, variant, nops, seed):
    tpath = os.path.join(WORK, "c12-trace-%d-%s.ndjson" % (i, variant))
    if os.path.exists(tpath):
        os.remove(tpath)
    rc, out, err = run_cmd([binary, "record", tpath, str(nops), variant], timeout=1200,
                           env={"VERIF_SEED": str(seed)})
    r = {"i": i, "variant": variant, "path": tpath, "rc": rc, "out": out[-1500:], "err": err[:3000]}
    if rc != 0:
        return r
    acc, prefix, res = validate_trace(TRACE_SPEC, tpath, timeout=3000)
    r.update(accepted=acc, prefix=prefix, stats=_trace_stats(tpath))
    return r


def _validate_collect(module, path, timeout=600):
    """validate_trace + the JSON objects the trace spec printed (findings), whichever way this
    version of vlib hands them over."""
    found = []
    try:
        acc, prefix, res = validate_trace(module, path, timeout=timeout, json_sink=found.append)
    except TypeError:
        acc, prefix, res = validate_trace(module, path, timeout=timeout)
    return acc, prefix, _dedupe(found or res.json)


def _dedupe(findings):
    """TLC may evaluate an action more than once per step, printing a finding again: one per trace line."""
    seen, out = set(), []
    for f in findings:
        if f["line"] not in seen:
            seen.add(f["line"])
            out.append(f)
    return sorted(out, key=lambda f: f["line"])


def _job_nonrep(binary, i, nops, seed):
    # `binary` is the build WITHOUT sanitizers: an out-of-storage read inside sample() must come
    # back as "the result is not a surviving element" (a contract clause the spec decides, stable
    # key), not as a sanitizer abort whose shape depends on what the stale memory happens to contain
    tpath = os.path.join(WORK, "c12-trace-nonrep-%d.ndjson" % i)
    if os.path.exists(tpath):
        os.remove(tpath)
    rc, out, err = run_cmd([binary, "record", tpath, str(nops), "nonrep"], timeout=1200,
                           env={"VERIF_SEED": str(seed)})
    r = {"i": i, "variant": "nonrep", "path": tpath, "rc": rc, "out": out[-1500:], "err": err[:3000]}
    if rc != 0:
        return r
    acc, prefix, found = _validate_collect(APPROX_SPEC, tpath, timeout=3000)
    evs = vlib.read_ndjson(tpath)
    st = {"events": len(evs), "executions": 0, "regimes": {}, "Sample": 0, "interior_samples": 0,
          "near_one_samples": 0, "Remove": 0, "Update": 0, "Add": 0, "states_with_zero_weight": 0}
    for e in evs:
        if e["e"] == "Reset":
            st["executions"] += 1
            st["regimes"][e["regime"]] = st["regimes"].get(e["regime"], 0) + 1
        elif e["e"] == "Sample":
            st["Sample"] += 1
            st["interior_samples"] += e["interior"]
            st["near_one_samples"] += e["interior"] == 1 and e["lo"] == 15
        else:
            st[e["e"]] = st.get(e["e"], 0) + 1
            st["states_with_zero_weight"] += 0 in e["ws"] and any(w > 0 for w in e["ws"])
    r.update(accepted=acc, prefix=prefix, stats=st, findings=found)
    return r


# ------------------------------------------------------------------ result handling

def _asan_kind(text):
    m = re.search(r"AddressSanitizer: (?:attempting )?([\w-]+)", text)
    if m:
        return m.group(1)
    m = re.search(r"runtime error: ([a-z ]+)", text)
    if m:
        return "-".join(m.group(1).split()[:5])
    if "uncaught" in text:
        return "uncaught-exception"
    m = re.search(r"CRASH (SIG\w+)", text)
    if m:
        return m.group(1)
    return "abort"


def _handle_replay(ck, dump, results):
    label, gpath = dump["name"], dump["path"]
    tot = {"scenarios": 0, "steps": 0, "failures": 0, "order_drift": 0, "pick_drift": 0, "samples": 0,
           "sample_steps": 0, "zero_total_observations": 0, "boundary_samples": 0}
    fails = []
    for (rc, out, err) in results:
        summ = _parse_all(out, "SUMMARY")
        fails += _parse_all(out, "FAIL")
        if not summ:
            if "CRASH" in out or rc in (70, 77, 78) or rc < 0:
                rp = ck.replay_file("graph-%s.ndjson" % label)
                shutil.copyfile(gpath, rp)
                kind = _asan_kind(err + out)
                where = (_parse_all(out, "CRASHWHERE") or [{}])[0].get("scenario", [])
                if where:
                    ck.replay_file("crash-scenario-%s.json" % label, json.dumps(where, indent=1))
                ck.violation("crash:replay:" + kind,
                             "pdf harness crashed / sanitizer abort (%s) while replaying specification scenarios "
                             "of %s; the scenario being executed: %s; %s"
                             % (kind, label, json.dumps(where), (err or out)[:700]), rp)
                return
            raise FrameworkError("pdf replay produced no summary (rc=%s): %s" % (rc, (out + err)[-2000:]))
        for k in tot:
            tot[k] += summ[0][k]
    ck.add("traces_validated_against_impl", tot["scenarios"])
    ck.add("replayed_steps", tot["steps"])
    ck.add("samples_compared", tot["samples"])
    ck.add("boundary_samples_compared", tot["boundary_samples"])
    ck.add("order_drift", tot["order_drift"])
    ck.add("tie_break_drift", tot["pick_drift"])
    if tot["failures"]:
        first = fails[0]
        rp = ck.replay_file("graph-%s.ndjson" % label)
        shutil.copyfile(gpath, rp)
        ck.replay_file("scenario-%s.json" % label, json.dumps(first, indent=1))
        ops = [s["a"] for s in first["scenario"]]
        ck.violation("replay:" + "/".join(ops[-2:]),
                     "%d of %d specification scenarios fail on the real PDF (%s); first: %s after %s"
                     % (tot["failures"], tot["scenarios"], label, first["why"],
                        json.dumps(first["scenario"][-3:])), rp)
        return
    if tot["samples"] == 0 or tot["boundary_samples"] == 0 or tot["zero_total_observations"] == 0:
        raise FrameworkError("vacuity gate: replay of %s compared no samples / no boundary r / no zero-total "
                             "state (%s); if order_drift > 0 the element order of the code no longer is the one "
                             "PDFTree.tla transcribes" % (label, tot))
    ck.sample({"kind": "replayed state graph", "config": label, "edges": dump["edges"], "states": dump["states"],
               "scenarios": tot["scenarios"], "samples_compared": tot["samples"]})


def _handle_trace(ck, r, first):
    variant, tpath = r["variant"], r["path"]
    name = "trace-%d-%s.ndjson" % (r["i"], variant)
    if r["rc"] != 0:
        rp = ck.replay_file(name)
        if os.path.exists(tpath):
            shutil.copyfile(tpath, rp)
        else:
            open(rp, "w").close()
        kind = _asan_kind(r["err"] + r["out"])
        where = (_parse_all(r["out"], "CRASHWHERE") or [{}])[0].get("op", "?")
        ck.violation("crash:record:" + kind, "PDF crashed / sanitizer abort (%s) under a random history (%s) in or "
                     "right after %s (the trace up to there is the replay file): %s"
                     % (kind, variant, where, (r["err"] or r["out"])[:700]), rp)
        return
    st = r["stats"]
    ck.add("trace_events", st["events"])
    for k in ("Sample", "Remove", "remove_sibling", "interior_boundary_samples", "zero_total_samples"):
        ck.add("trace_" + k, st[k])
    if r["accepted"]:
        need = ["Sample", "Add", "Update", "Remove", "remove_sibling", "remove_last", "remove_other",
                "interior_boundary_samples", "endpoint_samples"] + (["Construct"] if variant == "ctor" else [])
        missing = [k for k in need if st[k] == 0]
        if missing:
            raise FrameworkError("vacuity gate: recorded trace %s never exercised %s" % (name, missing))
        ck.add("traces_validated_against_impl", st["Reset"])
        if first:
            ck.sample({"kind": "recorded trace excerpt", "variant": variant,
                       "events": vlib.read_ndjson(tpath)[1:6]})
    else:
        rp = ck.replay_file(name)
        shutil.copyfile(tpath, rp)
        evs = vlib.read_ndjson(tpath)
        prefix = r["prefix"]
        bad = evs[prefix] if prefix is not None and prefix < len(evs) else {}
        ck.violation("trace:%s:%s" % (variant, bad.get("e")),
                     "recorded PDF execution rejected by PDFContract at event %d of %d: %s (previous listing: %s)"
                     % (prefix + 1, len(evs), json.dumps(bad),
                        json.dumps(next((e for e in reversed(evs[:prefix]) if "ord" in e), {}))), rp)


def _handle_nonrep(ck, r, agg):
    name = "trace-nonrep-%d.ndjson" % r["i"]
    tpath = r["path"]
    if r["rc"] != 0:
        rp = ck.replay_file(name)
        if os.path.exists(tpath):
            shutil.copyfile(tpath, rp)
        else:
            open(rp, "w").close()
        kind = _asan_kind(r["err"] + r["out"])
        where = (_parse_all(r["out"], "CRASHWHERE") or [{}])[0].get("op", "?")
        ck.violation("crash:record-nonrep:" + kind, "PDF crashed (%s) under a history with non-representable "
                     "weights in or right after %s: %s" % (kind, where, (r["err"] or r["out"])[:700]), rp)
        return
    st = r["stats"]
    ck.add("nonrep_trace_events", st["events"])
    ck.add("nonrep_samples", st["Sample"])
    if not r["accepted"]:
        rp = ck.replay_file(name)
        shutil.copyfile(tpath, rp)
        evs = vlib.read_ndjson(tpath)
        prefix = r["prefix"]
        bad = evs[prefix] if prefix is not None and prefix < len(evs) else {}
        ck.violation("trace:nonrep:%s" % bad.get("e"),
                     "recorded PDF execution (non-representable weights) rejected by PDFContract at event %d of "
                     "%d: %s" % (prefix + 1, len(evs), json.dumps(bad)), rp)
        return
    missing = [k for k in ("Add", "Update", "Remove", "interior_samples", "near_one_samples",
                           "states_with_zero_weight") if st[k] == 0]
    missing += [g for g in ("decimal", "ratio", "tiny") if g not in st["regimes"]]
    if missing:
        raise FrameworkError("vacuity gate: non-representable trace %s never exercised %s" % (name, missing))
    ck.add("traces_validated_against_impl", st["executions"])
    # findings are verdicts of the trace spec, one class per contract clause; the same class in
    # several traces is one violation (agg: class -> [count, first finding, replay file])
    for f in r["findings"]:
        if f["finding"] not in agg:
            rp = ck.replay_file(name)
            shutil.copyfile(tpath, rp)
            agg[f["finding"]] = [0, f, rp]
        agg[f["finding"]][0] += 1


def _report_nonrep(ck, agg):
    for cls in sorted(agg):
        count, f, rp = agg[cls]
        ck.add("nonrep_findings_" + cls, count)
        ck.violation("nonrep:" + cls,
                     "%d sample(r) calls in histories with non-representable weights break the contract clause "
                     "'%s'; first at line %d of the replay file: %s with elements (fixed-point weights, 0 = exactly "
                     "zero) %s" % (count, cls, f["line"], json.dumps(f["sample"]), json.dumps(f["listing"])), rp)


GATE = ["add_new_head", "add_no_new_head", "update", "clear_nonempty", "remove_single", "remove_last",
        "remove_swap_general", "remove_sibling", "remove_sibling_deep", "remove_row_shrink", "remove_head_drop",
        "remove_no_head_drop", "boundary_r", "zero_weight_states", "zero_total_states"]


def run(tier):
    ck = Check(PID, tier, "model_checking")
    ck.assumptions += ["weights are non-negative (add() rejects negative ones)",
                       "sample() is called on a non-empty structure with r in [0,1] (documented preconditions)",
                       "the zero-weight clause presumes total weight > 0; with total 0 any element may be returned",
                       "exact agreement is required only for exactly representable weights (integer weights, "
                       "dyadic r); for non-representable weights the cumulative interval is checked up to the "
                       "rigorous rounding slack logged by the recorder, the zero-weight and in-storage clauses "
                       "exactly",
                       "element order is whatever getElements() reports; the contract does not prescribe it"]
    W4, W3, W2 = (0, 1, 2, 3), (0, 1, 2), (0, 1)
    if tier == "quick":
        mcs = [("mc-6x4", W4, 6), ("mc-9x2", W2, 9)]
        # replayed graphs: all shapes up to 4 rows with three weight values and the full pair walk,
        # 5-row trees (9 elements) with two weight values, edges + random walks
        dumps = [("dump-5x3", (0, 1, 3), 5, "pairs", 2000, 4), ("dump-9x2", W2, 9, "edges", 1000, 1)]
        rec = [("small", 3000), ("mixed", 3000), ("ctor", 3000)]
        nonrep = [2500]
        drifts = [("drift-new-5x2", (0, 4), 5)]
    else:
        mcs = [("mc-7x4", W4, 7), ("mc-10x3", W3, 10), ("mc-13x2", W2, 13)]
        dumps = [("dump-6x4", W4, 6, "pairs", 20000, 12), ("dump-7x3", W3, 7, "pairs", 10000, 8),
                 ("dump-9x2", W2, 9, "pairs", 10000, 4), ("dump-11x2", W2, 11, "edges", 10000, 1)]
        rec = [("small", 40000), ("mixed", 40000), ("ctor", 40000)] * 3
        nonrep = [20000] * 3
        drifts = [("drift-new-5x2", (0, 4), 5), ("drift-new-4x3", (0, 4, 8), 4), ("drift-new-6x2", (0, 4), 6)]
    with ProcessPoolExecutor(max_workers=vlib.NCPU) as ex:
        # everything that does not depend on anything else starts now (the harness is compiled
        # while TLC explores)
        buildf = ex.submit(_job_build, "asan")
        dumpf = [(d, ex.submit(_job_dump, d[0], d[1], d[2])) for d in dumps]
        if os.environ.get("VERIF_C12_NONREP", "1") == "0":
            nonrep = []
            ck.assumptions.append("VERIF_C12_NONREP=0: histories with non-representable weights were skipped")
        plainf = ex.submit(_job_build, None) if nonrep else None
        tlcw = max(2, min(4, vlib.NCPU // 2))
        mcf = [(name, ex.submit(_job_mc, name, w, n, tlcw)) for name, w, n in mcs]
        driftf = [(name, True, ex.submit(_job_drift, name, w, n, True, DRIFT_INVS, tlcw)) for name, w, n in drifts]
        driftf += [("drift-old-" + inv, False, ex.submit(_job_drift, "drift-old-" + inv, (0, 4, 8), 3, False, (inv,), 1))
                   for inv in ("SampleInStorageDrift", "NoZeroWeightDrawnDrift")]
        binary = buildf.result()
        tracef = [ex.submit(_job_trace, binary, i, variant, nops, vlib.seed() * 131 + i)
                  for i, (variant, nops) in enumerate(rec)]
        nonrepf = [ex.submit(_job_nonrep, plainf.result(), i, nops, vlib.seed() * 257 + i)
                   for i, nops in enumerate(nonrep)]
        # 1. exhaustive model check of the implementation-shaped spec against the contract
        for name, f in mcf:
            res = f.result()
            ck.tlc(res, name)
            if res.violated:
                # the transcription of the algorithm breaks the contract: a design-level finding; the
                # verdict on the code comes from the replay below, which covers the same shapes
                log("[C12] note: TLC reports %s violated in the algorithm model (%s)" % (res.violated, name))
                ck.set("model_violation", res.violated)
        # 1b. design-level model of floating-point rounding: the repaired algorithm keeps the
        # rounding-proof clauses, the algorithm before the repair yields the counterexamples
        for name, repaired, f in driftf:
            res = f.result()
            ck.tlc(res, name)
            ck.set("rounding_model_" + name, {"algorithm": "repaired (ExactSums)" if repaired else "before e0af2370e",
                                              "violated": res.violated, "depth": res.depth,
                                              "states": res.distinct, "transitions": res.generated})
            if repaired and res.violated:
                log("[C12] note: TLC reports %s violated in the rounding model of the repaired algorithm (%s)"
                    % (res.violated, name))
                ck.set("model_violation", res.violated)
            if not repaired and not res.violated:
                raise FrameworkError("the rounding model of the algorithm before the repair no longer yields its "
                                     "counterexample (%s): the Drift model has become vacuous" % name)
        # 2. every transition of the state graph replayed on the real PDF
        replayf = []
        for (name, w, n, mode, walks, shards), f in dumpf:
            dump = f.result()
            missing = [k for k in GATE if dump["shapes"][k] == 0]
            if missing:
                raise FrameworkError("vacuity gate: the state graph %s contains no %s" % (name, missing))
            ck.set("shapes_" + name, dump["shapes"])
            ck.set("graph_" + name, {"states": dump["states"], "edges": dump["edges"], "dump_wall_s": dump["wall"]})
            replayf.append((dump, [ex.submit(_job_replay, binary, dump["path"], mode, walks, s, shards)
                                   for s in range(shards)]))
        for dump, fs in replayf:
            _handle_replay(ck, dump, [f.result() for f in fs])
        ck.set("exhaustive", True)
        # 3. recorded random histories validated against the contract
        for i, f in enumerate(tracef):
            _handle_trace(ck, f.result(), i == 0)
        # 4. histories with non-representable weights
        agg = {}
        for f in nonrepf:
            _handle_nonrep(ck, f.result(), agg)
        _report_nonrep(ck, agg)
    return ck.finish()


def selftest():
    """Binding demonstration of the trace spec: hand-corrupted recorded traces must be rejected."""
    binary = build_harness("pdf", needs_lib=False, san="asan")
    tpath = os.path.join(WORK, "c12-selftest.ndjson")
    rc, out, err = run_cmd([binary, "record", tpath, "1500", "small"], env={"VERIF_SEED": "7"})
    if rc != 0:
        raise FrameworkError("record failed: " + err[-500:])
    evs = vlib.read_ndjson(tpath)

    def listing(ev, i):
        return next(list(zip(e["ord"], e["ws"])) for e in reversed(ev[:i]) if "ord" in e)

    def zero_drawn(ev):
        for i, e in enumerate(ev):
            if e["e"] == "Sample" and 0 < e["num"] < e["den"]:
                cur = listing(ev, i)
                z = [u for u, w in cur if w == 0 and u != e["id"]]
                if z and sum(w for _, w in cur) > 0:
                    e["id"] = z[0]
                    return i

    def weight_wrong(ev):
        for i, e in enumerate(ev):
            if e["e"] == "Update" and e["n"] > 3:
                e["ws"][0] += 1
                return i

    def size_wrong(ev):
        for i, e in enumerate(ev):
            if e["e"] == "Remove" and e["n"] > 3:
                e["n"] += 1
                return i

    def ghost_listed(ev):
        for i, e in enumerate(ev):
            if e["e"] == "Remove" and e["n"] > 3:
                e["ord"][0] = e["id"]
                return i

    def wrong_interval(ev):
        for i, e in enumerate(ev):
            if e["e"] == "Sample" and e["num"] == e["den"]:
                cur = listing(ev, i)
                if len(cur) > 2 and cur[0][1] > 0 and cur[0][0] != e["id"] and sum(w for _, w in cur[1:]) > 0:
                    e["id"] = cur[0][0]
                    return i

    bad = 0
    acc, _, _ = validate_trace(TRACE_SPEC, tpath)
    print("unmodified trace: %s" % ("accepted" if acc else "REJECTED (unexpected)"))
    bad += not acc
    for name, mut in [("zero-weight element drawn for 0<r<1", zero_drawn), ("weight wrong", weight_wrong),
                      ("size wrong", size_wrong), ("removed element still listed", ghost_listed),
                      ("r=1 answered with the first element", wrong_interval)]:
        ev = json.loads(json.dumps(evs))
        at = mut(ev)
        if at is None:
            raise FrameworkError("selftest: no place to apply corruption '%s'" % name)
        p = os.path.join(WORK, "c12-selftest-corrupt.ndjson")
        vlib.write_ndjson(p, ev)
        acc, prefix, _ = validate_trace(TRACE_SPEC, p)
        ok = (not acc) and prefix == at
        print("%-55s line %5d: %s" % (name, at + 1, "rejected there" if ok else "NOT rejected at that line"))
        bad += not ok
    # the fixed-point trace spec: a grossly wrong element must be reported as an interval finding
    # (the clause with slack is not vacuous), a wrong listing must block the trace
    plain = build_harness("pdf", needs_lib=False, san=None)
    npath = os.path.join(WORK, "c12-selftest-nonrep.ndjson")
    rc, out, err = run_cmd([plain, "record", npath, "1500", "nonrep"], env={"VERIF_SEED": "7"})
    if rc != 0:
        raise FrameworkError("record nonrep failed: " + err[-500:])
    nev = vlib.read_ndjson(npath)
    acc, _, found = _validate_collect(APPROX_SPEC, npath)
    flagged = {f["line"] for f in found}
    print("unmodified non-representable trace: %s, %d line(s) with findings" % ("accepted" if acc else "REJECTED", len(flagged)))
    bad += not acc

    def far_element(ev):
        for i, e in enumerate(ev):
            if e["e"] == "Sample" and (i + 1) not in flagged and e["lo"] == e["hi"] == 8:
                cur = listing(ev, i)
                tot = sum(w for _, w in cur)
                pre = 0
                for u, w in cur:
                    # an element whose whole interval lies far above r * total = total / 2
                    if w > 0 and u != e["id"] and pre > tot // 2 + tot // 8 + 64:
                        e["id"] = u
                        return i
                    pre += w

    def fixed_weight_wrong(ev):
        for i, e in enumerate(ev):
            if i > 200 and e["e"] == "Update" and e["n"] > 2:
                e["ws"][0] += 5
                return i

    ev = json.loads(json.dumps(nev))
    at = far_element(ev)
    if at is None:
        raise FrameworkError("selftest: no place to apply the far-element corruption")
    p = os.path.join(WORK, "c12-selftest-corrupt.ndjson")
    vlib.write_ndjson(p, ev)
    acc, _, found = _validate_collect(APPROX_SPEC, p)
    ok = acc and any(f["line"] == at + 1 and f["finding"] == "interval-beyond-rounding-bound" for f in found)
    print("%-55s line %5d: %s" % ("non-representable: element far from r*total returned", at + 1,
                                  "reported as interval finding" if ok else "NOT reported"))
    bad += not ok
    ev = json.loads(json.dumps(nev))
    at = fixed_weight_wrong(ev)
    vlib.write_ndjson(p, ev)
    acc, prefix, _ = validate_trace(APPROX_SPEC, p)
    ok = (not acc) and prefix == at
    print("%-55s line %5d: %s" % ("non-representable: listed weight wrong", at + 1,
                                  "rejected there" if ok else "NOT rejected at that line"))
    bad += not ok
    return 1 if bad else 0


def replay(path):
    """Re-execute a replay artefact: a trace (.ndjson with 'trace' in its name) is re-validated by
    TLC against PDFContract, a state graph is re-replayed on the real PDF."""
    path = os.path.abspath(path)
    if path.endswith(".ndjson") and "trace-nonrep" in os.path.basename(path):
        acc, prefix, found = _validate_collect(APPROX_SPEC, path)
        if not acc:
            evs = vlib.read_ndjson(path)
            print("REJECTED at event %d: %s" % (prefix + 1, json.dumps(evs[prefix]) if prefix < len(evs) else "?"))
            return 1
        by = {}
        for f in found:
            by.setdefault(f["finding"], []).append(f)
        for cls in sorted(by):
            print("FINDING %s x%d, first: %s" % (cls, len(by[cls]), json.dumps(by[cls][0])))
        print("accepted as a history; %d sample(s) break the contract" % sum(len(v) for v in by.values()))
        return 1 if by else 0
    if path.endswith(".ndjson") and "trace" in os.path.basename(path):
        acc, prefix, res = validate_trace(TRACE_SPEC, path)
        if acc:
            print("accepted")
            return 0
        evs = vlib.read_ndjson(path)
        print("REJECTED at event %d: %s" % (prefix + 1, json.dumps(evs[prefix]) if prefix < len(evs) else "?"))
        return 1
    binary = build_harness("pdf", needs_lib=False, san="asan")
    if path.endswith(".json"):
        print(open(path).read())
        print("this is the first failing scenario; replay the graph-*.ndjson next to it to re-run it")
        return 1
    rc, out, err = run_cmd([binary, "replay", path, "pairs", "2000"], timeout=6000)
    print(out[-3000:])
    if rc not in (0, 1):
        print(err[-3000:])
    return 1 if rc else 0
