"""C07 - interpolation traces one consistent, bounded curve between its endpoints.

specs/base/SpaceAlgebra.tla (exact lattice interpolants for t, s, u in eighths; laws checked by TLC;
expectations replayed on the real spaces) and specs/base/SpaceLaws.tla + SpaceLawsTrace.tla (laws
decided by TLC on recorded observations of every shipped space).
"""
from checks import spaces_common as sc

PID = "C07"
RULE = ("lattice: TLC enumerates (from, to, s, u) with s, u in eighths over integer-lattice states of R^n, SO(2), "
        "SO(3) (Hurwitz quaternions), time, discrete, torus, SE(2), SE(3), nested weighted compounds and wrappers, with "
        "the exact admissible interpolants (either arc / either great circle on antipodal ties); recorded: seeded "
        "adversarial pairs on all 29 shipped spaces, t in 64ths. A case is non-trivial when its class hits a case "
        "split: coincident, antipodal tie, seam-crossing, long-way quaternion, landing exactly on -pi, t in {0,1}, "
        "on a bound; distinct = distinct hash of (space, case).")
ASSUMPTIONS = ["states in bounds",
               "re-parameterisation and proportionality only for R^n, SO(2), SO(3), SE(2), SE(3), time, torus and weighted "
               "compounds of them; never for discrete / hybrid spaces",
               "antipodal ties may go either way",
               "tolerance (logged per space): 2e-6 for the micro-unit rounding, + 4.5e-5 x weight for spaces containing "
               "SO(3) (its distance is 0 above |<p,q>| > 1 - 1e-9)"]


def run(tier):
    return sc.run(PID, 7, tier, RULE, ASSUMPTIONS)


def replay(path):
    return sc.replay(PID, 7, path)
