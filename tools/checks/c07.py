"""C07 - interpolation traces one consistent, bounded curve between its endpoints.

specs/base/SpaceAlgebra.tla (exact lattice interpolants for t, s, u in eighths; laws checked by TLC;
expectations replayed on the real spaces) and specs/base/SpaceLaws.tla + SpaceLawsTrace.tla (laws
decided by TLC on recorded observations of every shipped space).
"""
from checks import spaces_common as sc

PID = "C07"
RULE = ("lattice: TLC enumerates (from, to, s, u) with s, u in eighths over integer-lattice states of R^n, SO(2), "
        "SO(3) (Hurwitz quaternions), time, discrete, torus, SE(2), SE(3), nested weighted compounds and wrappers, with "
        "the exact admissible interpolants (either arc / either great circle on antipodal ties), the empty space and "
        "space-time lattices (reachable, on the light cone, unreachable); recorded: seeded adversarial pairs on all 38 "
        "shipped spaces, t in 64ths - among them Owen / Vana / VanaOwen (low-, medium-, high-altitude paths, pairs "
        "without a path), SpaceTime (pairs within and beyond the speed limit), EmptyStateSpace, projected / atlas / "
        "tangent-bundle space over R^3 with the unit sphere (geodesics that succeed and that fail). A case is non-trivial when its class hits a case "
        "split: coincident, antipodal tie, seam-crossing, long-way quaternion, landing exactly on -pi, t in {0,1}, "
        "on a bound; distinct = distinct hash of (space, case).")
ASSUMPTIONS = ["states in bounds",
               "re-parameterisation and proportionality only for R^n, SO(2), SO(3), SE(2), SE(3), time, torus and weighted "
               "compounds of them; never for discrete / hybrid spaces",
               "antipodal ties may go either way",
               "Owen / Vana / VanaOwen (not in the property's list of geodesic spaces): endpoints, in-bounds, aliasing; what "
               "holds by construction of 'interpolate follows the computed path': distance() = length of getPath(), "
               "interpolate(from,to,t) = interpolate(from,to,t,path) on that path bit for bit, chords between consecutive "
               "interpolants (every 1/16 of the path at least, 1e-3 units) <= K x the path length between them with K = 1 "
               "(Owen: constant speed) resp. 23/16 >= sqrt 2 (Vana, VanaOwen: horizontal and vertical projection are each "
               "traversed at fraction t of their own length), pitch within its range up to the planar Dubins resolution "
               "2e-6, heading in [-pi, pi); a pair for which getPath() finds no path is tagged (interpolate returns from)",
               "SpaceTime: pairs within the speed limit get all laws of a weighted compound of R^n / SE(2) and time; pairs "
               "beyond it (infinite distance) endpoints, in-bounds and aliasing only",
               "constrained spaces: interpolate(from,to,0) = from (tangent bundle: within 2 x the constraint tolerance, it "
               "re-projects the state it picks); interpolate(from,to,1) within delta (the resolution of the discrete "
               "geodesic, library default 0.05) of to when discreteGeodesic(from,to) succeeds, = from when it fails - asked "
               "before and after the calls, and one of the two in any case; when it fails every t gives from; aliasing "
               "exact for the projected space, within delta for the atlas-based ones (the atlas grows between calls); "
               "in-bounds",
               "tolerance (logged per space): 2e-6 for the micro-unit rounding, + 4.5e-5 x weight for spaces containing "
               "SO(3) (its distance is 0 above |<p,q>| > 1 - 1e-9)"]


def run(tier):
    return sc.run(PID, 7, tier, RULE, ASSUMPTIONS)


def replay(path):
    return sc.replay(PID, 7, path)
