"""C13 - grid discretizations track cells, neighbours, borders and components exactly.

1. TLC model-checks specs/ds/Grid.tla (the two-step createCell/add protocol, remove/destroy,
   update/updateAll, clear of Grid / GridN / GridB on small 1-D, 2-D (thorough: 3-D) boxes with
   cells on, inside and outside the bounds, several interior limits and priority callbacks)
   against NbrSymmetric, NbrExact, ComponentsPartition, ComponentsAlgo, CountExact,
   BorderExact, QueuePartition, TopsAreBest.  One run WITHOUT the documented protocol
   restriction documents that adjacent pending cells break the counters (API misuse).
2. The state graph of each dump configuration is exported with, per transition, the complete
   table of expected observations; every transition (and every pair with a small second step,
   and seeded random walks) is replayed on the real templates (ASan build) under several
   coordinate maps (negative, +-10^6 with reflection) and construction orders.
3. Random histories recorded from the real classes (dense, hash-colliding and far-apart
   coordinates) are validated by TLC against the same specification (specs/ds/GridTrace.tla).
"""
import json
import os
import shutil
import threading
import time
from concurrent.futures import ThreadPoolExecutor

import vlib
from vlib import Check, run_tlc, run_cmd, build_harness, Graph, validate_trace, FrameworkError, WORK, log

PID = "C13"
INVARIANTS = ("TypeOK NbrSymmetric NbrExact ComponentsPartition ComponentsAlgo CountExact "
              "CountExactQuiescent BorderExact QueuePartition TopsAreBest")
# UBSan's per-access null/alignment/vptr checks double the compile time of this json-heavy
# harness and add nothing here (ASan reports the same faults as crashes)
# (-g1: line tables only - enough for ASan reports, a third of the compile time less)
BUILD_EXTRA = ("-fno-sanitize=vptr,null,alignment,object-size", "-g1")


def C(name, kind, dim, axis, rest=(0,), bounds=None, limit=None, prios=(1,), bycount=False, extmax=True,
      maxpending=1, maxcells=99, strict=True, plus=False):
    return dict(name=name, kind=kind, dim=dim, axis=tuple(axis), rest=tuple(rest), bounds=bounds, plus=plus,
                limit=limit if limit else 2 * dim, prios=tuple(prios), bycount=bycount, extmax=extmax,
                maxpending=maxpending, maxcells=maxcells, strict=strict)


def _set(v):
    return "{%s}" % ", ".join(map(str, v))


def _b(x):
    return "TRUE" if x else "FALSE"


def _constants(c):
    lo, hi = c["bounds"] if c["bounds"] else (0, 0)
    return ["CONSTANTS", '  Kind = "%s"' % c["kind"], "  Dim = %d" % c["dim"], "  Axis = " + _set(c["axis"]),
            "  AxisRest = " + _set(c["rest"]), "  Plus = " + _b(c["plus"]), "  HasBounds = " + _b(c["bounds"]), "  LoB = %d" % lo, "  HiB = %d" % hi,
            "  Limit = %d" % c["limit"], "  Prios = " + _set(c["prios"]), "  ByCount = " + _b(c["bycount"]),
            "  ExtMax = " + _b(c["extmax"]), "  Strict = " + _b(c["strict"]), "  MaxPending = %d" % c["maxpending"],
            "  MaxCells = %d" % c["maxcells"]]


def _cfg(c, mode, invariants=INVARIANTS):
    d = vlib.ensure_dir(os.path.join(WORK, "cfg-c13"))
    p = os.path.join(d, "%s-%s.cfg" % (c["name"], mode))
    if mode == "trace":
        body = ["SPECIFICATION TSpec"] + _constants(c) + ["INVARIANT NotAccepted", "CHECK_DEADLOCK FALSE"]
    else:
        body = ["SPECIFICATION Spec"] + _constants(c) + ["VIEW View"]
        body.append("INVARIANTS " + invariants)
        if mode == "dump":
            body.append("ACTION_CONSTRAINT Dump")
    with open(p, "w") as f:
        f.write("\n".join(body) + "\n")
    return p


def _variant(c, **kw):
    v = dict(kind=c["kind"].lower(), dim=c["dim"], bounds=1 if c["bounds"] else 0, limit=c["limit"],
             bycount=1 if c["bycount"] else 0, extmax=1 if c["extmax"] else 0)
    if c["bounds"]:
        v["lo"], v["hi"] = c["bounds"]
    v.update(kw)
    return ",".join("%s=%s" % (k, v[k]) for k in sorted(v))


_meta_lock = threading.Lock()
_meta_n = [0]


def _tlc(module, **kw):
    """run_tlc from several threads: give every run its own metadir (the last -metadir wins)."""
    with _meta_lock:
        _meta_n[0] += 1
        meta = os.path.join(WORK, "tlc", "c13-%d-%d" % (os.getpid(), _meta_n[0]))
    shutil.rmtree(meta, ignore_errors=True)
    try:
        return run_tlc(module, extra=("-metadir", meta), **kw)
    finally:
        shutil.rmtree(meta, ignore_errors=True)


def _validate(path, cfg, timeout=3000):
    """vlib.validate_trace, callable from several threads (own metadir)."""
    res = _tlc("ds/GridTrace", cfg=cfg, workers=1, timeout=timeout, env={"TRACE": path}, collect_json=False)
    if res.error:
        raise FrameworkError(res.error)
    if res.violated == "NotAccepted":
        return True, None, res
    return False, max(res.depth - 1, 0), res


def _parse(out, tag):
    for line in out.splitlines():
        if line.startswith(tag + " "):
            return json.loads(line[len(tag) + 1:])
    return None


def _category(why):
    for needle, cat in (("neighbor count", "count"), ("border flag", "border"), ("topInternal", "top-internal"),
                        ("topExternal", "top-external"), ("countInternal", "queue-sizes"), ("fracExternal", "queue-sizes"),
                        ("heaps not empty", "queue-sizes"), ("components()", "components"), ("future neighbours", "create-neighbours"),
                        ("neighbors(", "neighbors"), ("getCell", "lookup"), ("has(", "lookup"), ("size()", "size"),
                        ("getCells", "listing"), ("getContent", "listing"), ("getCoordinates", "listing"), ("iteration", "listing"),
                        ("remove() returned", "remove-result"), (" data ", "data"), ("internal:", "harness")):
        if needle in why:
            return cat
    return "other"


# ------------------------------------------------------------------------------------------ configurations

def _configs(tier):
    a2, a3, a4, a5 = (0, 1), (0, 1, 2), (0, 1, 2, 3), (0, 1, 2, 3, 4)
    neg, far, farsd = dict(map="neg"), dict(map="far"), dict(map="far", ctor="setdim")
    # Model coordinates are >= 0 (TLC's cfg syntax has no negative literals); the harness maps them
    # to negative / far-away / reflected real coordinates.  Every dump run also checks the invariants.
    # (configuration, [(harness variant options, also walk every pair?, random walks)])
    dumps = [
        (C("grid-1d", "Grid", 1, a5, maxpending=2), [(neg, True, 300), (farsd, False, 100)]),
        (C("gridn-1d-l2", "GridN", 1, a5, bounds=(1, 3), limit=2, maxpending=2), [(neg, True, 300), (farsd, False, 100)]),
        (C("gridn-1d-l1-far", "GridN", 1, (0, 1, 2, 3, 10), bounds=(1, 3), limit=1, maxpending=2), [(neg, True, 300)]),
        (C("gridb-1d-l2", "GridB", 1, a5, bounds=(1, 3), limit=2, prios=(1, 2), bycount=True),
         [(neg, False, 300), (farsd, False, 100)]),
        (C("gridb-1d-l1-swap", "GridB", 1, a4, bounds=(1, 2), limit=1, prios=(1, 2), extmax=False, maxpending=2),
         [(dict(map="neg", ctor="setlimit"), True, 300)]),
        (C("grid-2d", "Grid", 2, a3, a2, maxpending=2), [(neg, False, 200)]),
        (C("gridn-2d-plus-l4", "GridN", 2, a3, a3, bounds=(0, 2), limit=4, plus=True, maxpending=2),
         [(dict(map="neg", ctor="setlimit"), True, 200), (far, False, 100)]),
        (C("gridn-2d-l2", "GridN", 2, a3, a2, bounds=(1, 2), limit=2), [(dict(map="neg", ctor="setdim"), False, 200)]),
        (C("gridb-2d-l2", "GridB", 2, a3, a2, bounds=(0, 1), limit=2, bycount=True), [(neg, False, 200), (farsd, False, 100)]),
        (C("gridb-2d-plus-l4", "GridB", 2, a3, a3, limit=4, prios=(1, 2), bycount=True, plus=True), [(far, False, 200)]),
    ]
    mcs = [
        C("mc-gridb-1d-6", "GridB", 1, (0, 1, 2, 3, 4, 5), bounds=(1, 4), limit=2, prios=(1, 2), bycount=True, maxpending=2),
        C("mc-gridn-2d-3x3-l3", "GridN", 2, a3, a3, bounds=(0, 2), limit=3),
        C("mc-gridb-2d-3x3-l4", "GridB", 2, a3, a3, bounds=(0, 2), limit=4, bycount=True),
    ]
    misuse = C("misuse-gridn-1d", "GridN", 1, a5, bounds=(1, 3), limit=2, maxpending=2, strict=False)
    rec = [  # (name, configuration for the trace spec, recorder options, events)
        ("grid-2d-wide", C("t-grid-2d", "Grid", 2, (0,)), dict(range="wide"), 2500),
        ("gridn-1d-near", C("t-gridn-1d", "GridN", 1, (0,), bounds=(0, 5), limit=2), dict(range="near"), 2500),
        ("gridn-2d-far", C("t-gridn-2d-far", "GridN", 2, (0,), bounds=(999999, 1000001), limit=3), dict(range="far", ctor="setdim"), 2500),
        ("gridb-2d-near", C("t-gridb-2d", "GridB", 2, (0,), bounds=(0, 3), limit=2, bycount=True), dict(range="near"), 3500),
        ("gridb-2d-wide-swap", C("t-gridb-2d-swap", "GridB", 2, (0,), limit=4, extmax=False), dict(range="wide"), 2500),
        ("gridb-1d-near", C("t-gridb-1d", "GridB", 1, (0,), bounds=(0, 6), limit=2, bycount=True), dict(range="near", ctor="setdim"), 2500),
        ("gridb-3d-near", C("t-gridb-3d", "GridB", 3, (0,), bounds=(0, 2), limit=3, bycount=True), dict(range="near"), 2500),
    ]
    if tier != "quick":
        dumps = [(c, [(o, p or i == 0 and c["dim"] == 1, w * 4) for i, (o, p, w) in enumerate(vs)]) for c, vs in dumps]
        dumps += [
            (C("gridb-1d-l2-p2", "GridB", 1, a5, bounds=(1, 3), limit=2, prios=(1, 2), bycount=True, maxpending=2),
             [(neg, True, 1000)]),
            (C("gridn-2d-3x3-l4", "GridN", 2, a3, a3, bounds=(0, 2), limit=4), [(neg, False, 1000), (farsd, False, 500)]),
            (C("gridb-2d-3x3-l3", "GridB", 2, a3, a3, bounds=(0, 2), limit=3, bycount=True), [(far, False, 1000)]),
            (C("gridb-2d-3x2-p2", "GridB", 2, a3, a2, bounds=(0, 1), limit=2, prios=(1, 2), bycount=True),
             [(neg, False, 1000), (dict(map="far", ctor="setlimit"), False, 500)]),
            (C("gridn-3d-plus-l6", "GridN", 3, a3, a3, bounds=(0, 2), limit=6, plus=True, maxpending=2),
             [(neg, True, 1000), (farsd, False, 500)]),
            (C("gridb-3d-plus-l6", "GridB", 3, a3, a3, limit=6, bycount=True, plus=True), [(far, False, 1000)]),
            (C("gridb-3d-2x2x2-l4", "GridB", 3, a2, a2, bounds=(0, 1), limit=4, bycount=True, maxcells=6), [(neg, False, 1000)]),
            (C("gridn-3d-2x2x2-l3", "GridN", 3, a2, a2, bounds=(1, 2), limit=3), [(farsd, False, 1000)]),
        ]
        mcs += [
            C("mc-gridb-1d-7", "GridB", 1, (0, 1, 2, 3, 4, 5, 6), bounds=(1, 5), limit=2, prios=(1, 2), bycount=True, maxpending=2),
            C("mc-gridb-2d-3x3-p2", "GridB", 2, a3, a3, bounds=(0, 2), limit=4, prios=(1, 2), bycount=True, maxcells=5),
            C("mc-gridn-2d-4x3-l2", "GridN", 2, a4, a3, bounds=(1, 2), limit=2),
            C("mc-gridn-3d-2x2x2", "GridN", 3, a2, a2, bounds=(0, 1), limit=5, maxpending=2),
            C("mc-gridb-3d-3x2x2", "GridB", 3, a3, a2, bounds=(0, 1), limit=4, bycount=True),
            C("mc-gridb-3d-plus-p2", "GridB", 3, a3, a3, bounds=(0, 2), limit=6, prios=(1, 2), bycount=True, plus=True, maxpending=2),
        ]
        rec = [(n, c, o, ev * 6) for n, c, o, ev in rec] + [
            ("gridb-3d-far", C("t-gridb-3d-far", "GridB", 3, (0,), bounds=(999999, 1000001), limit=4), dict(range="far"), 12000),
            ("gridn-3d-wide", C("t-gridn-3d-wide", "GridN", 3, (0,), limit=6), dict(range="wide", ctor="setdim"), 12000),
            ("grid-1d-far", C("t-grid-1d-far", "Grid", 1, (0,)), dict(range="far"), 12000),
        ]
    return mcs, dumps, misuse, rec


# ------------------------------------------------------------------------------------------ jobs

def _job_mc(c, workers):
    res = _tlc("ds/Grid", cfg=_cfg(c, "mc"), workers=workers, timeout=3000)
    return c, res


def _job_dump(c):
    edges = []
    res = _tlc("ds/Grid", cfg=_cfg(c, "dump"), workers=1, timeout=3000, json_sink=edges.append)
    if res.error:
        raise FrameworkError(res.error)
    if res.violated:
        return c, res, None, None     # the model breaks its own contract: nothing complete to replay
    # run_tlc hands lines that are still buffered when TLC exits back as plain text: the last
    # transitions may be among them
    for line in res.out.splitlines():
        if line.startswith('"{') and line.endswith('}"'):      # PrintT shows the JSON text as a TLA+ string
            line = line[1:-1].replace('\\"', '"').replace("\\\\", "\\")
        if line.startswith('{"') and line.endswith("}"):
            try:
                edges.append(json.loads(line))
            except ValueError:
                pass
    if len(edges) != res.generated - 1:
        raise FrameworkError("dump of %s is incomplete: %d transitions printed, TLC generated %d states"
                             % (c["name"], len(edges), res.generated))
    g = Graph(edges)
    g.check_connected()
    gpath = g.write(os.path.join(WORK, "c13-%s.ndjson" % c["name"]))
    acts, to_int, to_ext = {}, 0, 0
    for e in g.edges:
        acts[e["a"]] = acts.get(e["a"], 0) + 1
        to_int += e["exp"]["toInt"]
        to_ext += e["exp"]["toExt"]
    return c, res, gpath, dict(states=len(g.ids), edges=len(g.edges), actions=acts, flips_to_interior=to_int, flips_to_border=to_ext)


def _job_replay(binary, gpath, variant, pairs, walks):
    rc, out, err = run_cmd([binary, "replay", gpath, variant, "pairs" if pairs else "edges", str(walks)], timeout=3000)
    return rc, out, err


def _job_record(binary, name, c, opts, nev, i):
    tpath = os.path.join(WORK, "c13-trace-%s.ndjson" % name)
    variant = _variant(c, **opts)
    rc, out, err = run_cmd([binary, "record", tpath, str(nev), variant], timeout=900,
                           env={"VERIF_SEED": str(vlib.seed() * 131 + i)})
    if rc != 0:
        return name, c, variant, tpath, (rc, out, err), None
    acc, prefix, res = _validate(tpath, _cfg(c, "trace"))
    return name, c, variant, tpath, None, (acc, prefix)


def _write_replay(ck, label, gpath, variant, extra):
    """A replay artefact: copy of the graph + the variant + (for humans) the failing scenario."""
    gcopy = ck.replay_file("graph-%s.ndjson" % label)
    shutil.copyfile(gpath, gcopy)
    meta = dict(graph=gcopy, variant=variant, seed=vlib.seed())
    meta.update(extra)
    return ck.replay_file("scenario-%s.json" % label, json.dumps(meta, indent=1))


def run(tier):
    ck = Check(PID, tier, "model_checking")
    ck.assumptions += [
        "createCell is followed by add (or remove) before any adjacent cell is created or removed, and clear() is not "
        "called while a created-but-not-added cell has neighbours in the grid (DESIGN.md section 6; every caller in the "
        "library creates and adds at once); TLC documents that the counters break otherwise",
        "no second cell is added at an occupied coordinate; a removed cell is destroyed, never added again",
        "topInternal/topExternal are called only while the respective heap is non-empty (they dereference top() first)",
        "bounds and interior limit are set before the first cell is created; the count of a cell on the bounds is "
        "present neighbours + number of boundary dimensions, as numberOfBoundaryDimensions defines it",
        "the GridB cell ordering functors are strict weak orders; GridB is used through its own type, not a base reference",
    ]
    mcs, dumps, misuse, rec = _configs(tier)
    build = {}
    t0 = time.time()
    phases = {}

    def _build():
        try:
            build["bin"] = build_harness("grid", needs_lib=False, san="asan", extra=BUILD_EXTRA)
        except BaseException as ex:  # noqa: B036 - re-raised in the main thread
            build["err"] = ex

    bt = threading.Thread(target=_build)
    bt.start()
    pool = ThreadPoolExecutor(max_workers=max(2, vlib.NCPU))   # vlib.NCPU honours the VERIF_JOBS throttle
    try:
        # 1. dump runs (workers=1 each, invariants checked, side by side), then the larger models
        dump_f = [pool.submit(_job_dump, c) for c, _ in dumps]
        mc_res = [_job_mc(c, vlib.NCPU) for c in mcs]

        def model_violation(c, res):
            # the transcription of today's code breaks its own contract: a design-level finding of
            # the model; the verdict on the code comes from the replay of the other graphs
            log("[C13] note: TLC reports %s violated in the model (%s)" % (res.violated, c["name"]))
            ck.set("model_violation", "%s in %s" % (res.violated, c["name"]))

        for c, res in mc_res:
            ck.tlc(res, c["name"])
            if res.violated:
                model_violation(c, res)
        res = _tlc("ds/Grid", cfg=_cfg(misuse, "mc", "TypeOK CountExactQuiescent"), workers=2, timeout=600)
        if res.error:
            raise FrameworkError(res.error)
        if res.violated != "CountExactQuiescent":
            raise FrameworkError("vacuity gate: without the protocol restriction CountExact should break (adjacent pending "
                                 "cells), TLC says: %s" % res.violated)
        ck.set("misuse_documented", "Strict=FALSE: CountExactQuiescent violated after %d states (adjacent pending cells / "
               "removal next to a pending cell) - API misuse, not a finding" % res.distinct)

        phases["model_checking_done"] = round(time.time() - t0, 1)
        graphs = []
        need_all = {"Create", "Add", "Remove", "Destroy", "Clear"}
        tot_in = tot_out = mig_in = mig_out = 0
        for f in dump_f:
            c, res, gpath, st = f.result()
            ck.tlc(res, c["name"])
            if res.violated:
                model_violation(c, res)
                continue
            ck.set("graph_" + c["name"], st)
            need = set(need_all) | ({"Update", "UpdateAll"} if c["kind"] == "GridB" and len(c["prios"]) > 1 else set())
            if c["kind"] == "GridB":
                need.add("UpdateAll")
            if need - set(st["actions"]):
                raise FrameworkError("vacuity gate: actions never taken in %s: %s" % (c["name"], sorted(need - set(st["actions"]))))
            if c["kind"] != "Grid":
                if not st["flips_to_interior"] or not st["flips_to_border"]:
                    raise FrameworkError("vacuity gate: border flag never flips both ways in %s: %s" % (c["name"], st))
                tot_in += st["flips_to_interior"]
                tot_out += st["flips_to_border"]
            if c["kind"] == "GridB":
                mig_in += st["flips_to_interior"]
                mig_out += st["flips_to_border"]
            graphs.append((c, gpath, st))
        if not (mig_in and mig_out):
            raise FrameworkError("vacuity gate: no cell ever migrates between the two heaps in any graph")
        ck.set("model_border_flips", {"to_interior": tot_in, "to_border": tot_out})
        ck.set("model_heap_migrations", {"external_to_internal": mig_in, "internal_to_external": mig_out})

        phases["dumps_done"] = round(time.time() - t0, 1)
        # 2. replay on the real classes
        bt.join()
        phases["build_done"] = round(time.time() - t0, 1)
        if "err" in build:
            raise build["err"]
        binary = build["bin"]
        # (the recordings first: record + TLC validation is the longest single job)
        rec_f = [pool.submit(_job_record, binary, n, c, o, ev, i) for i, (n, c, o, ev) in enumerate(rec)]
        jobs = []
        by_name = {c["name"]: vs for c, vs in dumps}
        for c, gpath, st in graphs:
            for opts, pairs, walks in by_name[c["name"]]:
                variant = _variant(c, **opts)
                jobs.append((c, gpath, variant, pool.submit(_job_replay, binary, gpath, variant, pairs, walks)))
        real_in = real_out = 0
        for c, gpath, variant, f in jobs:
            rc, out, err = f.result()
            label = "%s-%s" % (c["name"], vlib.digest(variant)[:6])
            summ = _parse(out, "SUMMARY")
            if summ is None:
                if "CRASH" in out or rc in (70, 77, 78) or rc < 0:
                    rp = _write_replay(ck, label, gpath, variant, dict(output=(err or out)[-1500:]))
                    ck.violation("crash:%s:%s" % (c["kind"], c["name"]), "grid harness crashed / sanitizer abort while replaying "
                                 "specification scenarios of %s [%s]: %s" % (c["name"], variant, (err or out)[-600:]), rp)
                    continue
                raise FrameworkError("grid replay produced no summary (rc=%s): %s" % (rc, (out + err)[-2000:]))
            ck.add("traces_validated_against_impl", summ["scenarios"])
            ck.add("replayed_steps", summ["steps"])
            ck.add("top_calls", summ["topCalls"])
            ck.add("priority_callbacks", summ["callbacks"])
            if c["kind"] != "Grid":
                real_in += summ["flipsToInt"]
                real_out += summ["flipsToExt"]
            if summ["failures"]:
                first = _parse(out, "FAIL")
                rp = _write_replay(ck, label, gpath, variant, first)
                ops = [s["a"] for s in first["scenario"]]
                if "internal:" in first["why"]:
                    raise FrameworkError("harness bookkeeping failed in %s: %s" % (c["name"], first["why"]))
                ck.violation("replay:%s:%s:%s" % (c["kind"], ops[-1], _category(first["why"])),
                             "%d of %d specification scenarios of %s fail on the real %s [%s]; first: %s  after %s"
                             % (summ["failures"], summ["scenarios"], c["name"], c["kind"], variant, first["why"],
                                " ".join("%s%s" % (s["a"], json.dumps(s["args"].get("c", "")) if isinstance(s["args"], dict) else "")
                                         for s in first["scenario"][-6:])), rp)
            else:
                ck.sample({"kind": "replayed state graph", "config": c["name"], "variant": variant, "edges": summ["edges"],
                           "states": summ["states"], "scenarios": summ["scenarios"]}, cap=6)
        if not ck.violations and not (real_in and real_out):
            raise FrameworkError("vacuity gate: the real cells never flipped between border and interior during replay")
        ck.set("observed_border_flips", {"to_interior": real_in, "to_border": real_out})
        phases["replay_done"] = round(time.time() - t0, 1)
        ck.set("exhaustive", True)

        # 3. recorded random histories validated against the specification
        for f in rec_f:
            name, c, variant, tpath, crash, verdict = f.result()
            if crash:
                rc, out, err = crash
                if rc == 4:
                    raise FrameworkError("recorder: " + err[-500:])
                rp = ck.replay_file("trace-%s.ndjson" % name)
                if os.path.exists(tpath):
                    shutil.copyfile(tpath, rp)
                ck.violation("record-crash:%s:%s" % (c["kind"], name), "%s crashed / sanitizer abort under a random history [%s]: %s"
                             % (c["kind"], variant, (err or out)[-600:]), rp)
                continue
            acc, prefix = verdict
            nev = sum(1 for _ in open(tpath))
            ck.add("trace_events", nev)
            if acc:
                ck.add("traces_validated_against_impl", 1)
                if name.startswith("gridb-2d-near"):
                    ck.sample({"kind": "recorded trace excerpt", "events": vlib.read_ndjson(tpath)[1:4]}, cap=8)
            else:
                rp = ck.replay_file("trace-%s.ndjson" % name)
                shutil.copyfile(tpath, rp)
                evs = vlib.read_ndjson(tpath)
                bad = evs[prefix] if prefix < len(evs) else {}
                ck.violation("trace:%s:%s" % (c["kind"], bad.get("e")), "recorded %s execution [%s] rejected by the Grid specification "
                             "at event %d of %d: %s" % (c["kind"], variant, prefix + 1, nev, json.dumps(bad)[:600]), rp)
        phases["traces_done"] = round(time.time() - t0, 1)
        ck.set("phase_wall_s", phases)   # informative only
    finally:
        pool.shutdown(wait=True)
        bt.join()
    return ck.finish()


def _cfg_from_reset(ev, name):
    kind = ev["kind"]
    return C(name, kind, ev["dim"], (0,), bounds=(ev["lo"], ev["hi"]) if ev["bounds"] else None, limit=ev["limit"],
             bycount=ev.get("bycount", False), extmax=ev.get("extmax", True))


def replay(path):
    """Re-execute a replay artefact: a recorded trace (.ndjson, configuration taken from its Reset
    line) is re-validated; a scenario file (.json: graph + variant) is re-replayed on the real code."""
    if path.endswith(".ndjson") and "trace" in os.path.basename(path):
        first = vlib.read_ndjson(path)[0]
        c = _cfg_from_reset(first, "replay-" + vlib.digest(first))
        acc, prefix, res = validate_trace("ds/GridTrace", path, cfg=_cfg(c, "trace"), timeout=3000)
        print("accepted" if acc else "REJECTED at event %d" % (prefix + 1))
        return 0 if acc else 1
    binary = build_harness("grid", needs_lib=False, san="asan", extra=BUILD_EXTRA)
    if path.endswith(".json"):
        meta = json.load(open(path))
        print("first failing scenario recorded: %s" % json.dumps({k: meta[k] for k in meta if k in ("why", "scenario", "output")})[:3000])
        rc, out, err = run_cmd([binary, "replay", meta["graph"], meta["variant"], "pairs", "500"],
                               env={"VERIF_SEED": str(meta.get("seed", 1))}, timeout=3000)
        print((out + err)[-3000:])
        return 1 if rc else 0
    print("usage: --replay <scenario-*.json | trace-*.ndjson>")
    return 2
