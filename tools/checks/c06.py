"""C06 - state-space distances obey the metric laws each space claims.

specs/base/SpaceAlgebra.tla (exact lattice models, laws checked by TLC on every enumerated pair /
triple, expectations replayed on the real spaces) and specs/base/SpaceLaws.tla + SpaceLawsTrace.tla
(laws decided by TLC on recorded fixed-point observations of every shipped space).
"""
from checks import spaces_common as sc

PID = "C06"
RULE = ("lattice: TLC enumerates every pair (and every triple of a thinned lattice) of integer-lattice states of "
        "R^n, SO(2) (multiples of pi/N), SO(3) (24 Hurwitz quaternions), time, discrete, torus, SE(2), SE(3), nested "
        "weighted compounds and wrappers, the empty space and space-time (R^n x time lattices of one unit, vMax 1 and 2: "
        "unreachable / on the light cone / reachable), with the exact expected distance; recorded: seeded adversarial "
        "triples (seam-crossing, antipodal, near-antipodal, coincident, 1e-9 / 1e-12 apart, on the bounds, pivot) on all "
        "38 shipped spaces - among them Owen / Vana / VanaOwen (also level flight to a target a hair lower, little room "
        "and much altitude), SpaceTime over R^2 and SE(2) as ordered pairs (also on and 1e-12 .. 1e-3 next to the light "
        "cone), EmptyStateSpace, projected / atlas / tangent-bundle space over R^3 with the unit sphere (states on the "
        "sphere). A case is non-trivial when its class (computed by the model, resp. from the inputs) hits a "
        "case split: coincident, antipodal, seam-crossing, +-pi / q=-q representative, at the extent or on a bound; "
        "distinct = distinct hash of (space, case).")
ASSUMPTIONS = ["compound weights strictly positive", "states in bounds", "extent clause only for bounded time",
               "symmetry / triangle only where hasSymmetricDistance() / isMetricSpace() claim them",
               "positivity only between states the space calls unequal and further apart than the space's own "
               "resolution (logged per space: Dubins / Reeds-Shepp 2e-6, quaternion spaces 5e-5, float sphere 1e-4, else 0)",
               "Owen / Vana / VanaOwen: the laws every space has (non-negative, finite, identity, positivity beyond the planar "
               "Dubins resolution 2e-6, extent) and distance >= straight line between the positions; no symmetry, no "
               "triangle inequality (neither is claimed)",
               "SpaceTime: symmetric as documented ('direction independent'), infinite iff timeToCoverDistance exceeds the "
               "time between the states (observations within float epsilon x 10 x time extent + 2e-6 of the boundary may "
               "fall on either side), timeToCoverDistance x vMax = distance of the space component, a finite distance is "
               "the weighted sum of the two component distances; no triangle inequality and no extent bound (infinite)",
               "constrained spaces: laws of the wrapped R^3 (they delegate distance / equalStates / extent)",
               "tolerance (logged per space): 2e-6 for the micro-unit rounding, + float epsilon x extent for the "
               "float-precision sphere, + 4.5e-5 x weight for spaces containing SO(3) (its distance is 0 above "
               "|<p,q>| > 1 - 1e-9)"]


def run(tier):
    return sc.run(PID, 6, tier, RULE, ASSUMPTIONS)


def replay(path):
    return sc.replay(PID, 6, path)
