"""C06 - state-space distances obey the metric laws each space claims.

specs/base/SpaceAlgebra.tla (exact lattice models, laws checked by TLC on every enumerated pair /
triple, expectations replayed on the real spaces) and specs/base/SpaceLaws.tla + SpaceLawsTrace.tla
(laws decided by TLC on recorded fixed-point observations of every shipped space).
"""
from checks import spaces_common as sc

PID = "C06"
RULE = ("lattice: TLC enumerates every pair (and every triple of a thinned lattice) of integer-lattice states of "
        "R^n, SO(2) (multiples of pi/N), SO(3) (24 Hurwitz quaternions), time, discrete, torus, SE(2), SE(3), nested "
        "weighted compounds and wrappers, with the exact expected distance; recorded: seeded adversarial triples "
        "(seam-crossing, antipodal, near-antipodal, coincident, 1e-9 / 1e-12 apart, on the bounds, pivot) on all 29 "
        "shipped spaces. A case is non-trivial when its class (computed by the model, resp. from the inputs) hits a "
        "case split: coincident, antipodal, seam-crossing, +-pi / q=-q representative, at the extent or on a bound; "
        "distinct = distinct hash of (space, case).")
ASSUMPTIONS = ["compound weights strictly positive", "states in bounds", "extent clause only for bounded time",
               "symmetry / triangle only where hasSymmetricDistance() / isMetricSpace() claim them",
               "positivity only between states the space calls unequal and further apart than the space's own "
               "resolution (logged per space: Dubins / Reeds-Shepp 2e-6, quaternion spaces 5e-5, float sphere 1e-4, else 0)",
               "tolerance (logged per space): 2e-6 for the micro-unit rounding, + float epsilon x extent for the "
               "float-precision sphere, + 4.5e-5 x weight for spaces containing SO(3) (its distance is 0 above "
               "|<p,q>| > 1 - 1e-9)"]


def run(tier):
    return sc.run(PID, 6, tier, RULE, ASSUMPTIONS)


def replay(path):
    return sc.replay(PID, 6, path)
