"""G03 - the search structure planners export (growth check; not one of the 20 listed properties).

1. specs/geometric/TreePlanner.tla: reference model of a graph-building planner on the abstract cell map (roots from
   the input states, Extend after a motion check, Rewire, Connect, Prune, the lazy variants, Report).  TLC checks the
   invariants (Forest, RootsAreInputs, VerticesValid, EdgesValid, LinksValid, PathVerticesLive, PathEdgesInGraph,
   PathIsFreeWalk, TreeWithinReach) over every behaviour of small instances, and must REFUTE three seeded design
   faults (extension without the motion check, rewiring under a descendant, reporting an unchecked lazy path) -
   the invariants bite.
2. impl -> spec: after every solve of the C01 configuration sweep (TLC-enumerated 3x3 worlds x every registered
   planner x state space x parameters) the harness reads Planner::getPlannerData() and measures, with its own oracle,
   the facts those invariants talk about; TLC validates every report against ExportedGraphContract.tla
   (ExportedGraphTrace).  A planner dying inside getPlannerData is a Crash event that no specification accepts.
"""
import json
import os
import random
import subprocess
import vlib
import planrun
from vlib import Check, run_tlc, build_harness, FrameworkError, WORK, log
import c01

PID = "G03"
MODEL_CFGS = [("rrtstar", None), ("bidir", None), ("lazy", None), ("wall", None),
              ("fault_extend", "Inv"), ("fault_rewire", "Inv"), ("fault_report", "Inv"),
              # the clause as first written (path along exported edges, for EVERY planner) does not survive rewiring
              ("pathedges", "PathEdgesUnconditional")]
CURVE_SPACES = ("RS", "DUBINS")   # non-unique / direction-dependent curves: edge re-validation is not meaningful there


def models(ck, tier):
    for name, expect in MODEL_CFGS:
        if tier == "quick" and name == "lazy":
            continue   # 2.1 M states, a minute: thorough tier
        res = run_tlc("geometric/TreePlanner", cfg="TreePlanner_%s.cfg" % name, workers=max(2, vlib.NCPU // 2),
                      timeout=1800, coverage=(expect is None))
        ck.tlc(res, "TreePlanner_" + name)
        if expect is None:
            if res.violated:
                rp = ck.replay_file("model-%s.txt" % name, res.out[-6000:])
                ck.violation("model:TreePlanner_%s:%s" % (name, res.violated),
                             "reference planner model violates its invariant %s" % res.violated, rp)
            for act in ("AddRoot", "Extend", "Prune"):
                if res.coverage.get(act, (0, 0))[0] == 0:
                    raise FrameworkError("vacuity gate: action %s never taken in TreePlanner_%s" % (act, name))
        elif res.violated != expect:
            raise FrameworkError("vacuity gate: seeded design fault %s not refuted by TLC (%s)" % (name, res.violated))
        else:
            ck.add("design_faults_refuted")


def judge(ck, trace, label):
    rows = vlib.read_ndjson(trace)
    out = []
    res = run_tlc("geometric/ExportedGraphTrace", workers=1, timeout=3000, env={"TRACE": trace}, json_sink=out.append)
    if res.error:
        raise FrameworkError(res.error)
    acc = [b for b in out if "accepted" in b]
    if not acc or acc[0]["accepted"] != len(rows):
        raise FrameworkError("export trace not consumed to the end: %s" % res.out[-1500:])
    seen = set()
    for b in out:
        if "accepted" in b or b["line"] in seen:
            continue
        seen.add(b["line"])
        r = rows[b["line"] - 1]
        for clause in sorted(b["failed"]):
            key = "%s:%s" % (r.get("planner", "?"), clause)
            rp = ck.replay_file("export-%s-%d.json" % (label, b["line"]), json.dumps(r, indent=1))
            ck.violation(key, "planner %s in %s on map obst=%s start=%s goal=%s (query=%s range=%s budget=%s seed=%s params=%s): "
                         "status %s, exported-graph clause '%s' fails: %s" %
                         (r.get("planner"), r.get("space"), r.get("obst"), r.get("start"), r.get("goal"), r.get("query"),
                          r.get("range"), r.get("budget"), r.get("seed"), r.get("params"), r.get("status", r.get("e")),
                          clause, r.get("graph")), rp)
    return rows


def run(tier):
    ck = Check(PID, tier, "exploration")
    ck.assumptions += [
        "grid worlds of unit cells; spaces R2, SE2, R3, CMP, SE3 (the curve spaces are left to C01: edge re-validation "
        "of direction-dependent curves is not meaningful on an undirected export)",
        "edge validity = no stretch longer than twice the resolution inside an obstacle along StateSpace::interpolate "
        "(the C01 oracle), first 4000 edges of an export",
    ]
    models(ck, tier)
    binary = build_harness("planners", needs_lib=True)
    rng = random.Random(vlib.seed() * 6151 + 3)
    planners = json.loads(subprocess.run([binary, "list"], capture_output=True, text=True).stdout)
    cases3 = c01.enum_cases(ck, 3, 3, 9, "world3x3")
    jobs, chosen = c01.make_jobs(cases3, planners, 30 if tier == "quick" else 160, 1, rng)
    for j in jobs:
        j["runs"] = [r for r in j["runs"] if r["space"] not in CURVE_SPACES]
    jobs = [j for j in jobs if j["runs"]]
    d = vlib.ensure_dir(os.path.join(WORK, "g03"))
    jpath = os.path.join(d, "jobs.ndjson")
    vlib.write_ndjson(jpath, jobs)
    os.environ["VERIF_GRAPH"] = "1"
    try:
        trace, total, notes = planrun.run_sharded(binary, "c01", jpath, os.path.join(d, "trace"))
    finally:
        os.environ.pop("VERIF_GRAPH", None)
    for n in notes:
        log("[G03] " + n)
    rows = judge(ck, trace, tier)
    exports = [r for r in rows if r.get("e") == "Solve" and "graph" in r]
    per_planner = {}
    for r in exports:
        per_planner[r["planner"]] = per_planner.get(r["planner"], 0) + 1
    ck.set("evaluations", len(rows))
    ck.set("exports_examined", len(exports))
    ck.set("vertices_examined", sum(r["graph"]["nV"] for r in exports))
    ck.set("edges_revalidated", sum(r["graph"]["checkedEdges"] for r in exports))
    ck.set("paths_matched_against_export", sum(1 for r in exports if r["graph"]["pathStates"] > 0))
    ck.set("distinct_nontrivial", len({(r["planner"], r["space"], tuple(r["obst"]), r["start"], r["goal"], r["range"])
                                       for r in exports if r["graph"]["nE"] > 0}))
    ck.set("rule", "C01 configuration sweep (TLC-enumerated 3x3 worlds, stratified) x every registered planner x space x "
                   "parameters; an export is non-trivial when it holds at least one edge")
    ck.set("planners", len(per_planner))
    if len(per_planner) < 35 or ck.cov["edges_revalidated"] < 20000:
        raise FrameworkError("vacuity gate: too few exports examined: %d planners, %d edges" %
                             (len(per_planner), ck.cov["edges_revalidated"]))
    for r in exports[:3]:
        ck.sample({"planner": r["planner"], "space": r["space"], "status": r["status"], "graph": r["graph"]})
    return ck.finish()


def replay(path):
    r = json.load(open(path))
    binary = build_harness("planners", needs_lib=True)
    d = vlib.ensure_dir(os.path.join(WORK, "replay", PID))
    case = {"W": r["W"], "H": r["H"], "obst": r["obst"], "start": r["start"], "goal": r["goal"]}
    runspec = {"planner": r["planner"], "space": r["space"], "thr": r["thr"], "range": r["range"],
               "budget": r["budget"], "seed": r["seed"], "res": r.get("resFrac", 10000) / 1e6,
               "query": r.get("query", "single"), "params": r.get("params", {})}
    jp = os.path.join(d, "job.ndjson")
    vlib.write_ndjson(jp, [{"case": case, "runs": [runspec]}])
    out = os.path.join(d, "rerun.ndjson")
    os.environ["VERIF_GRAPH"] = "1"
    planrun.run_shard(binary, "c01", jp, out, 0, 1)
    bad = []
    res = run_tlc("geometric/ExportedGraphTrace", workers=1, env={"TRACE": out}, json_sink=bad.append)
    bad = [b for b in bad if "accepted" not in b]
    print("re-run export:", "REJECTED %s" % bad[0]["failed"] if bad else "accepted")
    return 1 if bad else 0
