"""C17 - path post-processing preserves endpoints, validity and never worsens cost.

1. TLC model-checks geometric/PathOps.tla (a transcription of PathGeometric::subdivide,
   interpolate() and interpolate(count) on an integer line) against the densification contract
   on every path of <= MaxSeg segments, and prints every case with the states it must yield.
2. Every printed case is replayed on a real PathGeometric in R^1; the verdict is the contract
   evaluated on the states the real code produced (exact agreement with the transcription is a
   drift metric only).
3. Chains of PathSimplifier routine calls and PathHybridization sessions are recorded from the
   real code (planner outputs, stored paths, synthetic zig-zags with repeated states, in the
   circle world, two grid worlds and an empty world; parameter classes; seeds) with one REPORT
   per call computed by the harness's own oracle, and TLC validates the reports against
   geometric/SimplifierContract.tla.  The trace spec lists every report the contract rejects.
"""
import collections
import json
import os
import shutil
import vlib
from vlib import Check, run_tlc, run_cmd, build_harness, validate_trace, FrameworkError, WORK, log

PID = "C17"
TRACE_SPEC = "geometric/SimplifierContractTrace"
ROUTINES = ["reduceVertices", "collapseCloseVertices", "partialShortcutPath", "ropeShortcutPath",
            "smoothBSpline", "perturbPath", "findBetterGoal", "simplify", "simplifyMax"]


def _resources():
    return os.path.join(vlib.REPO, "tests", "resources")


def _cfg(name, maxseg, neg, pos, maxcount, rescodes):
    d = vlib.ensure_dir(os.path.join(WORK, "cfg-c17"))
    p = os.path.join(d, name + ".cfg")
    body = ["SPECIFICATION Spec", "CONSTANTS", "  MaxSeg = %d" % maxseg, "  NegDisp = %d" % neg,
            "  PosDisp = %d" % pos, "  MaxCount = %d" % maxcount,
            "  ResCodes = {%s}" % ", ".join(map(str, rescodes)),
            "INVARIANT Contract", "ACTION_CONSTRAINT Dump"]
    open(p, "w").write("\n".join(body) + "\n")
    return p


def _parse(out, tag):
    for line in out.splitlines():
        if line.startswith(tag + " "):
            return json.loads(line[len(tag) + 1:])
    return None


def _leftover_json(res):
    """run_tlc hands lines that were still buffered when TLC exited back as plain text in
    res.out; objects printed by the spec may be among them."""
    out = []
    for line in res.out.splitlines():
        t = line.strip()
        if t.startswith('"{') and t.endswith('}"'):
            t = t[1:-1].replace('\\"', '"').replace("\\\\", "\\")
        if t.startswith("{") and t.endswith("}"):
            try:
                out.append(json.loads(t))
            except ValueError:
                pass
    return out


def _slug(s):
    return "".join(c if c.isalnum() else "-" for c in s.lower()).strip("-")[:60]


# ------------------------------------------------------------------ part 1 + 2: PathOps
def _pathops(ck, binary, name, maxseg, neg, pos, maxcount, rescodes):
    cases_path = os.path.join(WORK, "c17-cases-%s.ndjson" % name)
    counts = collections.Counter()
    with open(cases_path, "w") as f:
        def sink(o):
            counts[o["op"]] += 1
            f.write(json.dumps(o, separators=(",", ":")) + "\n")
        res = run_tlc("geometric/PathOps", cfg=_cfg(name, maxseg, neg, pos, maxcount, rescodes),
                      workers=vlib.NCPU, timeout=3000, json_sink=sink)
        for o in _leftover_json(res):
            if "op" in o and "exp" in o:
                sink(o)
    ck.tlc(res, name)
    if res.violated:
        # the transcription breaks the contract: a design-level finding; the verdict on the code
        # comes from the replay below, which covers the cases TLC got to print
        log("[C17] note: TLC reports %s violated in the transcription (%s)" % (res.violated, name))
        ck.set("model_violation", res.violated)
    npaths = sum((neg + pos + 1) ** m for m in range(0, maxseg + 1))
    want = {"Subdivide": npaths, "InterpolateAll": npaths * len(rescodes), "InterpolateCount": npaths * (maxcount + 1)}
    if not res.violated and dict(counts) != want:
        raise FrameworkError("PathOps dump incomplete: printed %s, expected %s" % (dict(counts), want))
    ck.set("pathops_cases_" + name, dict(counts))
    rc, out, err = run_cmd([binary, "replay", cases_path], timeout=3000)
    summ = _parse(out, "SUMMARY")
    if summ is None:
        crash = _parse(out, "CRASH")
        if crash is not None or rc in (70,) or rc < 0:
            rp = ck.replay_file("case-crash-%s.ndjson" % name, json.dumps({"context": crash}) + "\n")
            ck.violation("pathops:crash", "PathGeometric densification crashed while replaying a specification case: %s"
                         % json.dumps(crash)[:600], rp)
            return
        raise FrameworkError("paths replay produced no summary (rc=%s): %s" % (rc, (out + err)[-2000:]))
    if summ["scenarios"] != sum(counts.values()):
        raise FrameworkError("replayed %d of %d cases" % (summ["scenarios"], sum(counts.values())))
    for op, n in summ["grew"].items():
        if n == 0:
            raise FrameworkError("vacuity gate: %s never inserted a state" % op)
    ck.add("traces_validated_against_impl", summ["scenarios"])
    ck.add("pathops_states_compared", summ["states_compared"])
    ck.set("pathops_layout_drift_" + name, summ["drift"])
    if summ["drift"]:
        log("[C17] note: real PathGeometric places states differently from the transcription in %s cases "
            "(contract still holds there): %s" % (sum(summ["drift"].values()), summ["drift"]))
    if summ["failures"]:
        first = _parse(out, "FAIL")
        sc = first["scenario"]
        rp = ck.replay_file("case-%s.ndjson" % name, json.dumps({k: sc[k] for k in ("op", "a", "p", "exp")}) + "\n")
        clause, _, what = first["why"].partition("|")
        first["why"] = what or clause
        ck.violation("pathops:%s:%s" % (sc["op"], clause),
                     "%d of %d densification cases break the contract on the real PathGeometric; first: %s on path %s args %s "
                     "gave %s: %s" % (summ["failures"], summ["scenarios"], sc["op"], sc["p"], sc["a"], sc.get("got"), first["why"]), rp)
    else:
        ck.sample({"kind": "replayed PathOps cases", "config": name, "cases": summ["cases"], "drift": summ["drift"]})


# ------------------------------------------------------------------ part 3: simplifier reports
def _key(ev, broken):
    e = ev.get("e")
    if e == "Crash":
        r = str(ev.get("routine"))
        p = ev.get("p") or {}
        if r == "perturbPath" and ev.get("nBefore") == 1:
            cls = "single-state-path"
        elif r == "perturbPath" and p.get("snapPm") == 0:
            cls = "snapToVertex=0"
        else:
            cls = "n>=3" if (ev.get("nBefore") or 0) >= 3 else "n<3"
        return "crash:%s:%s" % (r.replace(" ", "-"), cls)
    key = "%s:%s" % (e, "+".join(sorted(broken)))
    if e == "simplify" and "SimplifySuccessIsTruthful" in broken:
        p = ev.get("p") or {}
        key += ":terminated-early" if p.get("ptcAfter", 10 ** 9) < 10 ** 6 else ":ran-to-completion"
    return key


def _chain_events(evs, chain, upto):
    return [x for i, x in enumerate(evs) if x.get("chain") == chain and i <= upto]


def _validate(ck, tpath, label, first, count):
    evs = vlib.read_ndjson(tpath)
    acc, prefix, res = validate_trace(TRACE_SPEC, tpath, timeout=3000)
    if not acc:
        raise FrameworkError("trace spec stopped at line %s of %d (malformed report?): %s\n%s"
                             % (prefix, len(evs), json.dumps(evs[prefix]) if prefix is not None and prefix < len(evs) else "",
                                res.out[-1500:]))
    ck.add("trace_events", len(evs))
    rejected = {}
    for r in list(res.json) + _leftover_json(res):
        if isinstance(r, dict) and "reject" in r:
            rejected[r["reject"]] = r["broken"]
    by_key = collections.OrderedDict()
    for line in sorted(rejected):
        ev = evs[line - 1]
        by_key.setdefault(_key(ev, rejected[line]), []).append((line, ev))
    for key, hits in by_key.items():
        line, ev = hits[0]
        chain = ev.get("chain")
        rp = ck.replay_file("trace-%s-%s.ndjson" % (label, _slug(key)))
        vlib.write_ndjson(rp, _chain_events(evs, chain, line - 1))
        inputs = tpath + ".inputs"
        if os.path.exists(inputs):
            for row in vlib.read_ndjson(inputs):
                if row.get("chain") == chain:
                    vlib.write_ndjson(rp + ".input", [row])
        open(rp + ".cmd", "w").write("VERIF_SEED=%d %s one %s %s\n" % (vlib.seed(), os.path.join(WORK, "bin", "paths"), chain, _resources()))
        ck.violation(key, "%d recorded report(s) rejected by SimplifierContract (clauses %s); first: chain %s, %s; reproduce with "
                     "VERIF_SEED=%d %s one %s %s ; report: %s"
                     % (len(hits), rejected[line], chain, ev.get("e") if ev.get("e") != "Crash" else "crash in " + str(ev.get("routine")),
                        vlib.seed(), "paths", chain, _resources(), json.dumps(ev)[:700]), rp)
    ck.add("reports_rejected", len(rejected))
    return evs, rejected, res


def _stats(ck, evs, rejected, tier):
    per = collections.OrderedDict((r, collections.Counter()) for r in ROUTINES)
    srcs = collections.Counter()
    hyb = collections.Counter()
    best = None
    for i, e in enumerate(evs):
        n = e["e"]
        if n == "NewPath":
            srcs["%s/%s" % (e["world"], e["src"].split("+")[0])] += 1
            if "+repeats" in e["src"]:
                srcs["with-repeated-states"] += 1
            if not e["valid"]:
                srcs["invalid-input"] += 1
        elif n in per:
            c = per[n]
            c["calls"] += 1
            c["changed"] += bool(e["changed"])
            c["valid_in"] += bool(e["validBefore"])
            c["non_metric"] += not e["metric"]
            c["with_goal"] += bool(e["goal"])
            c["field_objective"] += e["obj"] == "field"
            c["goal_replaced"] += (not e["lastKept"]) and bool(e["lastIsGoal"])
            c["shorter"] += e["lenAfter"] < e["lenBefore"] - 2
            c["cheaper"] += e["costAfter"] < e["costBefore"] - 2
            c["n<3"] += e["nBefore"] < 3
            c["returned_false"] += not e["ret"]
            c["library_check_false_after"] += not e["checkAfter"]
            if n == "simplify":
                p = e.get("p") or {}
                if p.get("ptcAfter", 10 ** 9) < 10 ** 6:
                    c["interrupted"] += 1
                    c["interrupted_and_returned_false"] += not e["ret"]
            if n == "perturbPath":
                c["single_state_path"] += e["nBefore"] == 1
                c["snap_threshold_0"] += (e.get("p") or {}).get("snapPm") == 0
        elif n == "Crash" and e.get("routine") in per:
            # a call that killed the process was made all the same (and has been rejected)
            c = per[e["routine"]]
            c["calls"] += 1
            c["crashed"] += 1
            if e["routine"] == "perturbPath":
                c["single_state_path"] += e.get("nBefore") == 1
                c["snap_threshold_0"] += (e.get("p") or {}).get("snapPm") == 0
        elif n == "HybridStart":
            best = None
            hyb["sessions"] += 1
        elif n == "recordPath":
            hyb["recorded"] += 1
            hyb["duplicates"] += bool(e["dup"])
            if not e["dup"]:
                best = e["cost"] if best is None else min(best, e["cost"])
        elif n == "computeHybridPath":
            hyb["computed"] += 1
            if e["has"] and best is not None:
                hyb["strictly_better_than_best_input"] += e["cost"] < best - 2
    ck.set("reports_per_routine", {k: dict(v) for k, v in per.items()})
    ck.set("hybridization", dict(hyb))
    ck.set("input_paths", dict(srcs))
    # vacuity gates: every action taken, every guard exercised on a report where it can bite
    # (a run that already carries violations claims no coverage: the gates are for passing runs)
    if ck.violations:
        return
    for r, c in per.items():
        if c["calls"] == 0:
            raise FrameworkError("vacuity gate: routine %s never called" % r)
        if c["changed"] == 0:
            raise FrameworkError("vacuity gate: routine %s never changed a path" % r)
        if c["non_metric"] == 0 or c["field_objective"] == 0 or c["n<3"] == 0:
            raise FrameworkError("vacuity gate: %s never ran in a non-metric space / under the field objective / on a "
                                 "path of fewer than 3 states: %s" % (r, dict(c)))
    for r in ("findBetterGoal", "simplify", "simplifyMax"):
        if per[r]["goal_replaced"] == 0:
            raise FrameworkError("vacuity gate: %s never replaced the goal state" % r)
    for r in ("partialShortcutPath", "ropeShortcutPath", "perturbPath", "findBetterGoal"):
        if per[r]["cheaper"] == 0:
            raise FrameworkError("vacuity gate: %s never lowered a cost" % r)
    if per["simplify"]["interrupted"] == 0 or per["perturbPath"]["single_state_path"] == 0 \
            or per["perturbPath"]["snap_threshold_0"] == 0:
        raise FrameworkError("vacuity gate: no interrupted simplify / no perturbPath on a single state / with snap "
                             "threshold 0: %s %s" % (dict(per["simplify"]), dict(per["perturbPath"])))
    if hyb["computed"] == 0 or hyb["strictly_better_than_best_input"] == 0 or hyb["duplicates"] == 0:
        raise FrameworkError("vacuity gate: hybridization never improved on its inputs / never saw a duplicate: %s" % dict(hyb))
    need = ["circles/rrtconnect", "circles/rrt", "circles/prm", "circles/stored", "circles/zigzag", "env1/rrtconnect",
            "env2crop/rrtconnect", "open/zigzag", "with-repeated-states"]
    missing = [s for s in need if srcs[s] == 0] + [d for d in ("single-state", "all-same", "two-states", "zero-first-segment",
                                                                 "zero-last-segment") if not any(k.endswith("/" + d) for k in srcs)]
    if missing:
        raise FrameworkError("vacuity gate: input classes never drawn: %s" % missing)


def _record(ck, binary, label, first, count):
    tpath = os.path.join(WORK, "c17-trace-%s.ndjson" % label)
    rc, out, err = run_cmd([binary, "record", tpath, str(first), str(count), _resources(), str(vlib.NCPU)], timeout=6000)
    summ = _parse(out, "RECORDED")
    if rc != 0 or summ is None:
        raise FrameworkError("paths record failed (rc=%s): %s" % (rc, (out[-1500:] + err[-1500:])))
    ck.add("chains", count)
    ck.add("chains_crashed", summ["crashed"])
    return tpath


def run(tier):
    ck = Check(PID, tier, "model_checking")
    ck.assumptions += [
        "input paths have at least one state and are valid in the library's own sense (first state valid, every "
        "resolution step of every segment valid); reports on other inputs are judged on endpoints, length and cost only",
        "the validity predicate handed to the library keeps a margin of two validity-checking steps from the obstacles "
        "and the oracle re-validates densely (1/10 step) with half a step of margin: a motion accepted by the discrete "
        "motion validator stays a full step away, so sub-segments and re-discretisation can never raise a false alarm",
        "objectives are additive when a segment is split (path length; integral of a linear cost field) - the cost of a "
        "path does not depend on where its vertices sit on a straight stretch",
        "all paths recorded into one hybridization session start at the same state and end in the same goal region; "
        "the objective is symmetric",
        "termination conditions are counting conditions (no wall clock); PRM is driven single-threaded through its own "
        "growRoadmap / query code because PRM::solve is wall-clock sliced",
        "the non-metric branch of simplify is reached with an R^2 space that declares isMetricSpace() = false",
    ]
    binary = build_harness("paths", needs_lib=True)
    res6 = (111, 121, 211, 321, 112, 212)
    if tier == "quick":
        _pathops(ck, binary, "4seg", 4, 4, 4, 14, res6)
        chains = 6000
    else:
        _pathops(ck, binary, "4seg", 4, 4, 4, 14, res6)
        _pathops(ck, binary, "5seg", 5, 2, 4, 16, res6)
        chains = 60000
    ck.set("exhaustive", True)
    first = 0
    tpath = _record(ck, binary, tier, first, chains)
    evs, rejected, tres = _validate(ck, tpath, tier, first, chains)
    _stats(ck, evs, rejected, tier)
    nrep = sum(1 for e in evs if e["e"] in ROUTINES or e["e"] in ("recordPath", "computeHybridPath"))
    ck.add("traces_validated_against_impl", nrep)
    ck.tlc(tres, "SimplifierContractTrace")
    for e in evs:
        if e["e"] == "partialShortcutPath" and e["changed"]:
            ck.sample({"kind": "recorded report", "report": {k: e[k] for k in e if k != "p"}, "params": e["p"]})
            break
    for e in evs:
        if e["e"] == "computeHybridPath" and e["has"]:
            ck.sample({"kind": "recorded report", "report": e})
            break
    return ck.finish()


def replay(path):
    """A trace artefact (.ndjson with reports) is re-validated by TLC; a case artefact is
    replayed on the real PathGeometric."""
    base = os.path.basename(path)
    if base.startswith("trace"):
        evs = vlib.read_ndjson(path)
        acc, prefix, res = validate_trace(TRACE_SPEC, path)
        rej = {}
        for r in list(res.json) + _leftover_json(res):
            if isinstance(r, dict) and "reject" in r:
                rej[r["reject"]] = r["broken"]
        if not acc:
            print("trace spec stopped at line %s" % prefix)
            return 2
        for line in sorted(rej):
            print("REJECTED line %d, clauses %s: %s" % (line, rej[line], json.dumps(evs[line - 1])))
        chain = evs[0].get("chain") if evs else None
        if os.path.exists(path + ".cmd"):
            print("to re-run the chain on the real code: " + open(path + ".cmd").read().strip())
        if not rej:
            print("accepted")
        return 1 if rej else 0
    binary = build_harness("paths", needs_lib=True)
    rc, out, err = run_cmd([binary, "replay", path])
    print(out[-3000:])
    return 1 if rc else 0
