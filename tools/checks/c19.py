"""C19 - concurrent use through the documented thread-safe surface is race-free.

Layer 1 (model checking): specs/conc/Counters.tla models the motion-counter increment at the
code's atomicity; TLC proves CounterEqualsCalls for the atomic form over all interleavings of 3
threads x 3 calls and exhibits the lost update for the two-step form.
Layers 2+3 (trace validation): harness/conc.cpp drives the thread-safe surface from 2..16 real
threads with the OMPL_VERIF hooks on; TLC validates each recorded execution against
specs/conc/SharedMemTrace.tla: the data-race rule (vector clocks from fork/join + measured
locksets + the accessed object's atomicity taken from its declared type) and the contract events
(results equal those of some sequential order).
Multi-threaded planners: sampled schedules of pRRT, pSBL, CForest, PRM family and
AnytimePathShortening are judged by the same PlannerContract as single-threaded planners.
The inside of those planners (tools/checks/c19_planners.py): protocol models of pSBL's threadSolve, PRM's two-thread
solve, CForest's and AnytimePathShortening's sharing and GoalStates::sampleGoal at the code's atomicity (TLC: safety +
termination), bound to the code by hooks in the planners: harness/concplan.cpp records real, schedule-perturbed runs
and TLC validates them against SharedMemTrace.tla (race rule with fork/join/lock happens-before, mutex ownership
rules), PSBLTrace.tla (purpose of the loopLock_ scheme) and the planner contract.
"""
import json
import os
import random
import shutil
import subprocess
import concurrent.futures
import vlib
import planrun
import c19_planners
from vlib import Check, run_tlc, run_cmd, build_harness, validate_trace, FrameworkError, WORK, log

PID = "C19"
F_MT = 1
RESOURCES = {"MotionValidator.counters", "PTC.terminate", "PTC.evalValue", "PTC.signalThreadStop", "GNAT.offset",
             "SolutionSet.solutions", "SeedGenerator.state", "AllocatedSpaces.list"}


def protocol_models(ck):
    res = run_tlc("conc/Counters", cfg="Counters_atomic.cfg", workers=2, timeout=600)
    ck.tlc(res, "counters-atomic")
    if res.violated:
        ck.violation("model:counters:" + res.violated, "atomic counter protocol violates %s" % res.violated,
                     ck.replay_file("counters-model.txt", res.out[-3000:]))
    res = run_tlc("conc/Counters", cfg="Counters_plain.cfg", workers=1, timeout=600)
    if res.error or res.violated != "CounterEqualsCalls":
        raise FrameworkError("vacuity gate: the two-step counter model does not lose an update")
    ck.set("plain_counter_model_loses_update", True)
    # the console (logging while handlers and the level are switched): lock-then-read must hold, read-then-lock must fail
    res = run_tlc("conc/ConsoleLog", cfg="ConsoleLog.cfg", workers=min(8, vlib.NCPU), timeout=900)
    ck.tlc(res, "console-protocol")
    if res.violated:
        ck.violation("model:console:" + res.violated, "console protocol (as transcribed) violates %s" % res.violated,
                     ck.replay_file("console-model.txt", res.out[-3000:]))
    res = run_tlc("conc/ConsoleLog", cfg="ConsoleLog_snapshot.cfg", workers=2, timeout=600)
    if res.error or res.violated != "DeliveredToInstalled":
        raise FrameworkError("vacuity gate: the console model that decides before it owns the lock is not refuted")
    ck.set("console_snapshot_variant_rejected_by", res.violated)
    # pRRT worker protocol at the code's atomicity (unlocked reads included): safety + termination
    res = run_tlc("conc/PRRT", cfg="PRRT.cfg", workers=min(4, vlib.NCPU), timeout=1800)
    ck.tlc(res, "prrt-protocol")
    if res.violated:
        ck.violation("model:prrt:" + res.violated, "pRRT worker protocol (as transcribed) violates %s" % res.violated,
                     ck.replay_file("prrt-model.txt", res.out[-3000:]))


def scenarios(tier):
    if tier == "quick":
        return [("counters", 8, 150000), ("counters", 2, 300000), ("terminate", 3, 0), ("terminate", 6, 0), ("periodic", 3, 0), ("periodic-terminate", 6, 0),
                ("gnat", 4, 400), ("solutions", 4, 200), ("rng", 6, 60), ("spaces", 6, 60), ("console", 6, 400), ("console", 4, 400)]
    out = []
    for t in (2, 4, 8, 16):
        out += [("counters", t, 400000), ("terminate", t, 0), ("gnat", t, 1500), ("solutions", t, 600), ("rng", t, 200), ("spaces", t, 200),
                ("console", max(t, 3), 1000)]
    out += [("periodic", 3, 0), ("periodic", 8, 0), ("periodic-terminate", 20, 0)] * 3
    return out * 2


def surface(ck, tier, binary):
    parts = []
    for i, (name, threads, calls) in enumerate(scenarios(tier)):
        tp = os.path.join(WORK, "c19-%d-%s.ndjson" % (i, name))
        rc, out, err = run_cmd([binary, "record", tp, name, str(threads), str(calls), "150"], timeout=1200,
                               env={"VERIF_SEED": str(vlib.seed() * 17 + i)})
        if rc != 0:
            with open(tp, "a") as f:
                f.write(json.dumps({"e": "Scenario", "name": name}) + "\n")
                f.write(json.dumps({"e": "Crash", "what": "rc=%s %s" % (rc, (err or out)[-200:])}) + "\n")
        parts.append(tp)
    merged = os.path.join(WORK, "c19-surface.ndjson")
    with open(merged, "w") as m:
        for p in parts:
            m.write(open(p).read())
    rows = vlib.read_ndjson(merged)
    acc, bad, res, _a = c19_planners.validate_announced("conc/SharedMemTrace", merged, timeout=3000, heap="8g")
    if not acc:
        raise FrameworkError("concurrency trace not consumed (stopped at depth %s): %s" % (res.depth, res.out[-1200:]))
    seen = set()
    for b in bad:
        for clause in sorted(b["failed"]):
            key = "%s:%s" % (clause, b["what"])
            if key in seen:
                continue
            seen.add(key)
            # the replay artefact is the recorded trace itself (deterministic evidence)
            rp = ck.replay_file("surface-%s.ndjson" % key.replace(":", "-").replace(".", "_"))
            shutil.copyfile(merged, rp)
            ck.violation(key, "recorded concurrent execution: clause '%s' fails for %s (first at event %d: %s)" %
                         (clause, b["what"], b["line"], json.dumps(rows[b["line"] - 1])[:240]), rp)
    acc_by_res = {}
    for r in rows:
        if r["e"] == "Access":
            acc_by_res[r["res"]] = acc_by_res.get(r["res"], 0) + 1
    missing = RESOURCES - set(acc_by_res)
    if missing:
        raise FrameworkError("vacuity gate: hooked resources never observed (hooks missing or not built in?): %s" % sorted(missing))
    ck.set("access_events_per_resource", acc_by_res)
    ck.set("hook_events", sum(1 for r in rows if r["e"] in ("Access", "Fork", "Begin", "End", "Join")))
    contract = [r for r in rows if r["e"] in ("CountersFinal", "TerminateSeen", "NNQueries", "SolutionsFinal", "SeedsConcurrent", "SpaceNames", "ConsoleLog")]
    ck.set("contract_events", len(contract))
    ck.add("traces_validated_against_impl", sum(1 for r in rows if r["e"] == "Scenario"))
    ck.sample({"kind": "hook events", "events": [r for r in rows if r["e"] == "Access"][:3]})
    ck.sample({"kind": "contract events", "events": contract[:3]})


def mt_planners(ck, tier, binary):
    rng = random.Random(vlib.seed() * 40503 + 1)
    planners = [p for p in json.loads(subprocess.run([binary, "list"], capture_output=True, text=True).stdout) if p["flags"] & F_MT]
    maps = [(3, 3, [4], 0, 8), (3, 3, [1, 4], 0, 2), (3, 3, [3, 4], 0, 6), (3, 3, [1, 3, 4], 8, 0), (3, 3, [4, 7, 8], 0, 7)]
    reps = 6 if tier == "quick" else 50
    jobs = []
    for p in planners:
        for _ in range(reps):
            W, H, obst, s, g = rng.choice(maps)
            jobs.append({"case": {"W": W, "H": H, "obst": obst, "start": s, "goal": g},
                         "runs": [{"planner": p["name"], "space": rng.choice(["R2", "R2", "SE2"]), "thr": rng.choice(["tiny", "cell"]),
                                   "range": rng.choice(["default", "tiny"]), "budget": rng.choice([200, 1500, 5000]),
                                   "seed": rng.randrange(1, 1 << 30), "res": 0.01}]})
    jp = os.path.join(WORK, "c19-mt-jobs.ndjson")
    vlib.write_ndjson(jp, jobs)
    trace, total, notes = planrun.run_sharded(binary, "c01", jp, os.path.join(WORK, "c19-mt-trace"), nshards=max(1, vlib.NCPU // 3))
    rows = vlib.read_ndjson(trace)
    bad = []
    acc, prefix, res = validate_trace("base/PlannerContractTrace", trace, timeout=3000, json_sink=bad.append)
    if not acc:
        raise FrameworkError("multi-threaded planner trace not consumed: " + res.out[-1000:])
    seen = set()
    for b in bad:
        if b["line"] in seen:
            continue
        seen.add(b["line"])
        r = rows[b["line"] - 1]
        for clause in sorted(b["failed"]):
            rp = ck.replay_file("mt-%s-%s.json" % (r.get("planner"), clause), json.dumps(r, indent=1))
            ck.violation("mt:%s:%s" % (r.get("planner"), clause),
                         "multi-threaded planner %s (map %s, %s->%s, budget %s, seed %s): status %s, clause '%s' fails" %
                         (r.get("planner"), r.get("obst"), r.get("start"), r.get("goal"), r.get("budget"), r.get("seed"),
                          r.get("status", r.get("e")), clause), rp)
    st = {}
    for r in rows:
        if r["e"] == "Solve":
            st.setdefault(r["planner"], {}).setdefault(r["status"], 0)
            st[r["planner"]][r["status"]] += 1
    ck.set("mt_planner_status_counts", st)
    ck.add("traces_validated_against_impl", len(rows))
    if len(st) < 6:
        raise FrameworkError("vacuity gate: only %d multi-threaded planners ran" % len(st))


def run(tier):
    ck = Check(PID, tier, "model_checking")
    ck.assumptions += [
        "only hooked resources are seen by the race rule (motion counters, termination flags + evaluator thread, GNAT "
        "offset, solution set, seed generator, allocated-spaces list); real schedules are sampled, interleavings are "
        "enumerated on the protocol model only",
        "lock ownership is read from glibc's mutex owner field; atomicity from the declared type of the accessed object",
    ]
    ck.assumptions += [
        "planner internals: happens-before comes from the recorded fork/join and lock events only (an ordering that exists "
        "through an unhooked synchronisation is not seen); schedules are perturbed at the hooks' yield points and at "
        "unprotected accesses, seeded, and sampled - all interleavings are enumerated on the protocol models only",
        "the protocol model variant used for verdicts is the one the recorded traces show the code implements",
    ]
    vlib.build_lib()
    hooked = c19_planners.planner_hooks_present()
    if not hooked:
        # the guarded hook commit for the planners (.work/c19-hooks.patch) is not in the tree under test: the layer that
        # looks inside the planners cannot be bound to the code and is left out (said in the evidence, not an alarm)
        log("[c19] planner hooks absent in %s: planner-internals layer not run" % vlib.REPO)
        ck.set("planner_internals", "NOT RUN: planner hooks (OMPL_VERIF lock/access events in pRRT/pSBL/PRM/CForest/APS) are not in the tree under test")
    models = c19_planners.Models(tier) if hooked else None
    if models:
        models.start()          # TLC jobs of the planner protocol models run in the background
    names = [("conc", "-O2"), ("planners", "-O1")] + ([("concplan", "-O1")] if hooked else [])
    with concurrent.futures.ThreadPoolExecutor(max_workers=3) as ex:
        fb = {n: ex.submit(build_harness, n, True, None, (), "plain", o) for n, o in names}
        protocol_models(ck)
        binary, pbin = fb["conc"].result(), fb["planners"].result()
        cbin = fb["concplan"].result() if hooked else None
    with concurrent.futures.ThreadPoolExecutor(max_workers=2) as ex:
        f1 = ex.submit(surface, ck, tier, binary)
        feats = c19_planners.planner_traces(ck, tier, cbin) if hooked else None
        f1.result()
    log("[c19] surface + planner traces done at %.0fs" % (__import__("time").time() - ck.t0))
    mt_planners(ck, tier, pbin)
    log("[c19] sampled multi-threaded planner contract done at %.0fs" % (__import__("time").time() - ck.t0))
    if models:
        models.judge(ck, feats)
    return ck.finish()


def replay(path):
    if os.path.basename(path).startswith("model-"):
        print(open(path).read()[-6000:])
        print("TLC counterexample of the protocol model (re-run: tools/checks/c19_planners.py Models)")
        return 1
    if os.path.basename(path).startswith("psbl-protocol-"):
        bad = []
        validate_trace("conc/PSBLTrace", path, json_sink=bad.append)
        fails = sorted({c for b in bad for c in b.get("failed", [])})
        print("recorded pSBL protocol trace:", "REJECTED %s" % fails if fails else "accepted")
        return 1 if fails else 0
    if os.path.basename(path).startswith("plan-"):
        bad = []
        validate_trace("conc/SharedMemTrace", path, json_sink=bad.append)
        fails = sorted({k for b in bad for k in c19_planners.race_key(b)})
        print("recorded planner trace:", "REJECTED %s" % fails if fails else "accepted")
        return 1 if fails else 0
    if path.endswith(".ndjson"):
        bad = []
        acc, prefix, res = validate_trace("conc/SharedMemTrace", path, json_sink=bad.append)
        fails = sorted({c + ":" + b["what"] for b in bad for c in b["failed"]})
        print("recorded trace:", "REJECTED %s" % fails if fails else "accepted")
        return 1 if fails else 0
    r = json.load(open(path))
    tp = os.path.join(vlib.ensure_dir(os.path.join(WORK, "replay", PID)), "rec.ndjson")
    vlib.write_ndjson(tp, [r])
    bad = []
    validate_trace("base/PlannerContractTrace", tp, json_sink=bad.append)
    print("recorded report:", "REJECTED" if bad else "accepted")
    return 1 if bad else 0
