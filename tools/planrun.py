"""Sharded execution of the planner harness with hang recovery (used by C01/C03/C04/C20)."""
import concurrent.futures
import json
import os
import re
import subprocess
import vlib


def run_shard(binary, mode, jobs_path, out_path, shard, nshards, extra=(), per_shard_timeout=21600):
    """Runs one shard; on a watchdog exit (75) or a crash resumes behind the offending run.
    Returns (#runs, list of notes)."""
    skip = 0
    notes = []
    total = 0
    for attempt in range(200):
        cmd = [binary, mode, jobs_path, out_path, str(shard), str(nshards), str(skip)] + list(extra)
        rc, out, err = vlib.run_cmd(cmd, timeout=per_shard_timeout)
        runs = [int(m) for m in re.findall(r"^RUN (\d+)$", out, re.M)]
        if rc == 0:
            m = re.search(r"RECORDED (\d+)", out)
            total = int(m.group(1)) if m else total
            return total, notes
        last = runs[-1] if runs else skip - 1
        if rc == 75:
            notes.append("hang at run %d of shard %d" % (last, shard))
        elif rc == -999:
            raise vlib.FrameworkError("planner shard %d timed out" % shard)
        else:
            # crash: the vt crash handler appended a Crash event; if not (e.g. SIGKILL), add one
            notes.append("crash (rc=%s) at run %d of shard %d: %s" % (rc, last, shard, (err or out)[-300:]))
            with open(out_path, "a") as f:
                tail = open(out_path).read()[-400:] if os.path.exists(out_path) else ""
                if '"e":"Crash"' not in tail.split("\n")[-2:][0] if tail else True:
                    f.write(json.dumps({"e": "Crash", "what": "rc=%s" % rc, "idx": last, "shard": shard}) + "\n")
        skip = last + 1
        total = skip
    raise vlib.FrameworkError("planner shard %d kept failing" % shard)


def run_sharded(binary, mode, jobs_path, out_prefix, nshards=None, extra=()):
    nshards = nshards or max(1, min(vlib.NCPU - 2, 14))
    outs = ["%s.%d.ndjson" % (out_prefix, i) for i in range(nshards)]
    for o in outs:
        if os.path.exists(o):
            os.remove(o)
    notes = []
    total = 0
    with concurrent.futures.ThreadPoolExecutor(max_workers=nshards) as ex:
        futs = [ex.submit(run_shard, binary, mode, jobs_path, outs[i], i, nshards, extra) for i in range(nshards)]
        for f in futs:
            n, nt = f.result()
            total += n
            notes += nt
    merged = out_prefix + ".ndjson"
    with open(merged, "w") as m:
        for o in outs:
            if os.path.exists(o):
                m.write(open(o).read())
                os.remove(o)
    return merged, total, notes
